/-
  C04 — exact volume bookkeeping per real well, including trough aliasing.

  Volumes change only through the `rm` / `ad` micro-operations; the ledger theorem is stated for
  arbitrary micro-operation lists and then specialised to direct `add` / `remove` calls, whose
  compiled form pairs wells and volumes element-wise in column-major order.
-/
import Robotools.Props.C02
import Robotools.Props.C08
import Robotools.Proofs.LedgerLemmas
namespace Robotools.C04
open Robotools

/-- Signed volume that micro-operation `m` books on real well `i` of labware `l`. -/
def delta (l i : Nat) : Micro → Rat
  | .rm l' i' v => if l' = l ∧ i' = i then -v else 0
  | .ad l' i' v _ => if l' = l ∧ i' = i then v else 0
  | _ => 0

/-- Tracked volume of real well `i` of labware `l`. -/
def wvol (w : World) (l i : Nat) : Rat :=
  match w.labs[l]? with
  | some L => L.vol i
  | none => 0

/-- The micro-operations that were executed (accepted) before the first refusal. -/
def executed (w : World) : List Micro → List Micro
  | [] => []
  | m :: ms =>
    match w.micro m with
    | .ok w' => m :: executed w' ms
    | .error _ => []

/-- `rm`/`ad` micro-operations address existing wells. -/
def InRange (w : World) : Micro → Prop
  | .rm l i _ => ∃ L, w.labs[l]? = some L ∧ i < L.vols.length
  | .ad l i _ _ => ∃ L, w.labs[l]? = some L ∧ i < L.vols.length
  | _ => True

/-- Shapes (number of labware, number of wells of each) never change. -/
theorem micro_shape (w w' : World) (m : Micro) (h : w.micro m = .ok w') :
    w'.labs.length = w.labs.length ∧ ∀ l : Nat, (w'.labs[l]?).map (fun (L : Labware) => L.vols.length) = (w.labs[l]?).map (fun (L : Labware) => L.vols.length) := by
  rcases World.micro_labs h with h1 | ⟨l0, L, L', hL, hset, hcase⟩
  · rw [h1]; exact ⟨rfl, fun _ => rfl⟩
  · have hlen : L'.vols.length = L.vols.length := by
      rcases hcase with ⟨i, v, _, hs⟩ | ⟨i, v, c, co, _, hs⟩ | ⟨label, rfl⟩ | ⟨n, label, hs⟩
      · rw [(Labware.removeStep_fields hs).2.1, List.length_set]
      · rw [(Labware.addStep_fields hs).2.1, List.length_set]
      · rfl
      · rw [(Labware.condenseLog_fields hs).1]
    rw [hset]
    refine ⟨List.length_set, fun l => ?_⟩
    rw [List.getElem?_set]
    split
    · rename_i heq
      subst heq
      have hlt : l0 < w.labs.length := (List.getElem?_eq_some_iff.1 hL).1
      rw [if_pos hlt, hL, Option.map_some, Option.map_some, hlen]
    · rfl

/-- `InRange` only depends on the shapes, which successful micro-operations preserve. -/
private theorem inRange_step (w w' : World) (m0 m : Micro) (h : w.micro m0 = .ok w')
    (hr : InRange w m) : InRange w' m := by
  have key : ∀ l i : Nat, (∃ L : Labware, w.labs[l]? = some L ∧ i < L.vols.length) →
      ∃ L : Labware, w'.labs[l]? = some L ∧ i < L.vols.length := by
    rintro l i ⟨L, hL, hi⟩
    have hs := (micro_shape w w' m0 h).2 l
    rw [hL] at hs
    cases hL' : w'.labs[l]? with
    | none => rw [hL'] at hs; cases hs
    | some L' =>
      rw [hL'] at hs
      simp only [Option.map_some, Option.some.injEq] at hs
      exact ⟨L', rfl, by omega⟩
  cases m with
  | rm l i v => exact key l i hr
  | ad l i v c => exact key l i hr
  | _ => trivial

private theorem wvol_setLab (w : World) (l0 l i : Nat) (L L' : Labware) (hL : w.labs[l0]? = some L) :
    wvol (w.setLab l0 L') l i = if l0 = l then L'.vol i else wvol w l i := by
  have hlt : l0 < w.labs.length := (List.getElem?_eq_some_iff.1 hL).1
  unfold wvol World.setLab
  simp only [List.getElem?_set]
  by_cases heq : l0 = l
  · subst heq
    simp only [if_pos hlt, if_true]
  · simp only [if_neg heq]

private theorem wvol_setLab_vols (w : World) (l0 l i : Nat) (L L' : Labware) (hL : w.labs[l0]? = some L)
    (hv : L'.vols = L.vols) : wvol (w.setLab l0 L') l i = wvol w l i := by
  rw [wvol_setLab w l0 l i L L' hL]
  split
  · rename_i heq
    subst heq
    unfold wvol
    rw [hL]
    simp only [Labware.vol, hv]
  · rfl

private theorem wvol_of_labs (w w' : World) (l i : Nat) (h : w'.labs = w.labs) : wvol w' l i = wvol w l i := by
  unfold wvol; rw [h]

private theorem delta_rm (l i l' i' : Nat) (v : Rat) :
    delta l i (.rm l' i' v) = if l' = l ∧ i' = i then -v else 0 := rfl

private theorem delta_ad (l i l' i' : Nat) (v : Rat) (c : CompSrc) :
    delta l i (.ad l' i' v c) = if l' = l ∧ i' = i then v else 0 := rfl

/-- One accepted micro-operation books exactly `delta` on every real well. -/
private theorem micro_ledger (w w' : World) (m : Micro) (h : w.micro m = .ok w') (hr : InRange w m)
    (l i : Nat) : wvol w' l i = wvol w l i + delta l i m := by
  cases m with
  | rm l0 i0 v =>
    obtain ⟨L0, hL0, hi0⟩ := hr
    simp only [World.micro, hL0] at h
    split at h
    · rename_i L' hL'
      cases h
      have hv := (Labware.removeStep_fields hL').2.1
      rw [wvol_setLab w l0 l i L0 L' hL0, delta_rm]
      by_cases hl : l0 = l
      · subst hl
        have hw : wvol w l0 i = L0.vol i := by unfold wvol; rw [hL0]
        rw [if_pos rfl, hw]
        by_cases hi : i0 = i
        · subst hi
          rw [if_pos ⟨rfl, rfl⟩]
          simp only [Labware.vol, hv]
          rw [getD_set_self _ _ _ _ hi0, Rat.sub_eq_add_neg]
        · rw [if_neg (fun hc => hi hc.2), Rat.add_zero]
          simp only [Labware.vol, hv]
          exact getD_set_ne _ _ _ _ _ (fun e => hi e.symm)
      · rw [if_neg hl, if_neg (fun hc => hl hc.1), Rat.add_zero]
    · cases h
  | ad l0 i0 v c =>
    obtain ⟨L0, hL0, hi0⟩ := hr
    simp only [World.micro, hL0] at h
    split at h
    · rename_i L' hL'
      cases h
      have hv := (Labware.addStep_fields hL').2.1
      rw [wvol_setLab w l0 l i L0 L' hL0, delta_ad]
      by_cases hl : l0 = l
      · subst hl
        have hw : wvol w l0 i = L0.vol i := by unfold wvol; rw [hL0]
        rw [if_pos rfl, hw]
        by_cases hi : i0 = i
        · subst hi
          rw [if_pos ⟨rfl, rfl⟩]
          simp only [Labware.vol, hv]
          rw [getD_set_self _ _ _ _ hi0]
        · rw [if_neg (fun hc => hi hc.2), Rat.add_zero]
          simp only [Labware.vol, hv]
          exact getD_set_ne _ _ _ _ _ (fun e => hi e.symm)
      · rw [if_neg hl, if_neg (fun hc => hl hc.1), Rat.add_zero]
    · cases h
  | loadComp l0 i0 =>
    simp only [World.micro] at h
    split at h
    · cases h
    · cases h
      simp only [delta, Rat.add_zero]
      exact wvol_of_labs _ _ l i rfl
  | log l0 label =>
    simp only [World.micro] at h
    split at h
    · cases h
    · rename_i L hL
      cases h
      simp only [delta, Rat.add_zero]
      exact wvol_setLab_vols w l0 l i L _ hL rfl
  | condense l0 n label =>
    simp only [World.micro] at h
    split at h
    · cases h
    · rename_i L hL
      split at h
      · rename_i L' hL'
        cases h
        simp only [delta, Rat.add_zero]
        exact wvol_setLab_vols w l0 l i L L' hL (Labware.condenseLog_fields hL').1
      · cases h
  | emit r =>
    simp only [World.micro] at h
    cases h
    simp only [delta, Rat.add_zero]
    exact wvol_of_labs _ _ l i rfl
  | setDiti k =>
    have hlabs : w'.labs = w.labs := by
      simp only [World.micro] at h
      split at h <;> split at h <;> first | (cases h; rfl) | cases h
    simp only [delta, Rat.add_zero]
    exact wvol_of_labs _ _ l i hlabs
  | fail e =>
    simp only [World.micro] at h
    cases h

private theorem executed_cons_ok {w w' : World} {m : Micro} (ms : List Micro)
    (h : w.micro m = .ok w') : executed w (m :: ms) = m :: executed w' ms := by
  simp only [executed, h]

private theorem executed_cons_error {w : World} {m : Micro} {e : Err} (ms : List Micro)
    (h : w.micro m = .error e) : executed w (m :: ms) = [] := by
  simp only [executed, h]

theorem executed_prefix (w : World) (ms : List Micro) : executed w ms <+: ms := by
  induction ms generalizing w with
  | nil => exact List.prefix_refl _
  | cons m ms ih =>
    unfold executed
    split
    · rename_i w' _
      exact List.cons_prefix_cons.2 ⟨rfl, ih w'⟩
    · exact List.nil_prefix

theorem executed_all_of_ok (w w' : World) (ms : List Micro) (h : w.exec ms = (w', none)) : executed w ms = ms := by
  induction ms generalizing w with
  | nil => rfl
  | cons m ms ih =>
    cases hm : w.micro m with
    | ok w1 =>
      rw [World.exec_cons_ok _ hm] at h
      unfold executed
      rw [hm]
      simp only
      rw [ih w1 h]
    | error e =>
      rw [World.exec_cons_error _ hm] at h
      cases h

/-- The ledger: each real well's volume equals its previous volume plus everything added to it
    minus everything removed from it by the executed steps — for accepted operations (all steps)
    and for rejected ones (the accepted prefix). -/
theorem exec_ledger (w : World) (ms : List Micro) (hr : ∀ m ∈ ms, InRange w m) (l i : Nat) :
    wvol (w.exec ms).1 l i = wvol w l i + ((executed w ms).map (delta l i)).sum := by
  induction ms generalizing w with
  | nil => simp only [World.exec_nil, executed, List.map_nil, List.sum_nil, Rat.add_zero]
  | cons m ms ih =>
    cases hm : w.micro m with
    | ok w1 =>
      have hstep := micro_ledger w w1 m hm (hr m List.mem_cons_self) l i
      have hr1 : ∀ m' ∈ ms, InRange w1 m' := fun m' hm' =>
        inRange_step w w1 m m' hm (hr m' (List.mem_cons_of_mem _ hm'))
      rw [World.exec_cons_ok _ hm, ih w1 hr1, hstep, executed_cons_ok _ hm,
        List.map_cons, List.sum_cons, Rat.add_assoc]
    | error e =>
      rw [World.exec_cons_error _ hm, executed_cons_error _ hm]
      simp only [List.map_nil, List.sum_nil, Rat.add_zero]

/-- Frame: wells that no executed step addresses are unchanged. -/
theorem exec_frame (w : World) (ms : List Micro) (hr : ∀ m ∈ ms, InRange w m) (l i : Nat)
    (h : ∀ m ∈ ms, delta l i m = 0) : wvol (w.exec ms).1 l i = wvol w l i := by
  rw [exec_ledger w ms hr l i]
  have hz : ∀ (xs : List Micro), (∀ m ∈ xs, delta l i m = 0) → (xs.map (delta l i)).sum = 0 := by
    intro xs
    induction xs with
    | nil => intro _; rfl
    | cons x xs ih =>
      intro hx
      rw [List.map_cons, List.sum_cons, hx x List.mem_cons_self,
        ih (fun m hm => hx m (List.mem_cons_of_mem _ hm)), Rat.add_zero]
  rw [hz _ (fun m hm => h m ((executed_prefix w ms).subset hm)), Rat.add_zero]

/-! ### Direct `add` / `remove` calls -/

/-- Wells and volumes of a call after flattening (column-major) and scalar broadcasting. -/
def callPairs (wells : Arr String) (vols : Arr Rat) : List (String × Rat) :=
  wells.flattenF.zip (broadcast1 vols.flattenF wells.flattenF.length)

private theorem any_neg_false (vs : List Rat) (hnn : ∀ v ∈ vs, 0 ≤ v) :
    (vs.any (· < 0)) = false := by
  rw [List.any_eq_false]
  intro v hv
  have := hnn v hv
  simp only [decide_eq_true_eq]
  exact Rat.not_lt.2 this

private theorem any_neg_true (vs : List Rat) (h : ∃ v ∈ vs, v < 0) :
    (vs.any (· < 0)) = true := by
  obtain ⟨v, hv, hlt⟩ := h
  rw [List.any_eq_true]
  exact ⟨v, hv, by simpa using hlt⟩

/-- An accepted shape: as many volumes as wells (after broadcasting), none negative, every ID known. -/
theorem compileRemove_shape (L : Labware) (l : Nat) (wells : Arr String) (vols : Arr Rat) (label : Option String)
    (idx : List Nat)
    (hlen : (broadcast1 vols.flattenF wells.flattenF.length).length = wells.flattenF.length)
    (hnn : ∀ v ∈ broadcast1 vols.flattenF wells.flattenF.length, 0 ≤ v)
    (hres : wells.flattenF.map L.geom.resolveFlat = idx.map some) :
    compileRemove L l wells vols label
      = (idx.zip (broadcast1 vols.flattenF wells.flattenF.length)).map (fun (i, v) => Micro.rm l i v) ++ [.log l label] := by
  unfold compileRemove
  simp only
  rw [if_neg (fun hne => hne hlen), any_neg_false _ hnn]
  simp only [Bool.false_eq_true, if_false]
  congr 1
  apply map_zip_resolve L.geom.resolveFlat _ _ _ _ _ _ hres
  intro w v i hi
  simp only [hi]

theorem compileAdd_shape (L : Labware) (l : Nat) (wells : Arr String) (vols : Arr Rat) (label : Option String)
    (idx : List Nat)
    (hlen : (broadcast1 vols.flattenF wells.flattenF.length).length = wells.flattenF.length)
    (hnn : ∀ v ∈ broadcast1 vols.flattenF wells.flattenF.length, 0 ≤ v)
    (hres : wells.flattenF.map L.geom.resolveFlat = idx.map some) :
    compileAdd L l wells vols label none
      = (idx.zip (broadcast1 vols.flattenF wells.flattenF.length)).map (fun (i, v) => Micro.ad l i v .none) ++ [.log l label] := by
  unfold compileAdd
  simp only
  rw [if_neg (fun hne => hne hlen), any_neg_false _ hnn]
  simp only [Bool.false_eq_true, if_false]
  congr 1
  apply map_zip3_resolve L.geom.resolveFlat CompSrc.none _ _ _ _ _ _ hres
  intro w v i hi
  simp only [hi]

/-- Calls with incompatible lengths or a negative volume are rejected before any well is touched. -/
theorem compileAdd_rejects_shape (L : Labware) (l : Nat) (wells : Arr String) (vols : Arr Rat) (label : Option String)
    (comps : Option (List (Option Comp)))
    (h : (broadcast1 vols.flattenF wells.flattenF.length).length ≠ wells.flattenF.length
         ∨ ∃ v ∈ broadcast1 vols.flattenF wells.flattenF.length, v < 0) :
    compileAdd L l wells vols label comps = [.fail .reject] := by
  unfold compileAdd
  simp only
  rcases h with h | h
  · rw [if_pos h]
  · rw [any_neg_true _ h]
    simp only [if_true, ite_self]

theorem compileRemove_rejects_shape (L : Labware) (l : Nat) (wells : Arr String) (vols : Arr Rat) (label : Option String)
    (h : (broadcast1 vols.flattenF wells.flattenF.length).length ≠ wells.flattenF.length
         ∨ ∃ v ∈ broadcast1 vols.flattenF wells.flattenF.length, v < 0) :
    compileRemove L l wells vols label = [.fail .reject] := by
  unfold compileRemove
  simp only
  rcases h with h | h
  · rw [if_pos h]
  · rw [any_neg_true _ h]
    simp only [if_true, ite_self]

/-- A scalar volume applies to every addressed well. -/
theorem scalar_broadcast (v : Rat) (n : Nat) : broadcast1 (Arr.scalar v).flattenF n = List.replicate n v := by
  rfl

private theorem mat_index_lt {r c i j : Nat} (hi : i < r) (hj : j < c) : i * c + j < r * c :=
  calc i * c + j < i * c + c := Nat.add_lt_add_left hj _
    _ = (i + 1) * c := (Nat.succ_mul i c).symm
    _ ≤ r * c := Nat.mul_le_mul_right c hi

private theorem mat_col_isSome {α : Type} (r c : Nat) (l : List α) (hl : l.length = r * c) (j : Nat)
    (hj : j < c) : ∀ i ∈ List.range r, (l[i * c + j]?).isSome = true := by
  intro i hi
  have hlt : i * c + j < l.length := by rw [hl]; exact mat_index_lt (List.mem_range.1 hi) hj
  rw [List.getElem?_eq_getElem hlt]
  rfl

private theorem mat_col_length {α : Type} (r c : Nat) (l : List α) (hl : l.length = r * c) (j : Nat)
    (hj : j < c) : ((List.range r).filterMap fun i => l[i * c + j]?).length = r := by
  rw [filterMap_length_of_isSome _ _ (mat_col_isSome r c l hl j hj), List.length_range]

/-- 2-D arguments are read column-major: element (i, j) of an r×c array is the (j*r+i)-th. -/
theorem flattenF_mat_get {α : Type} (r c : Nat) (l : List α) (i j : Nat) (hl : l.length = r * c) (hi : i < r) (hj : j < c) :
    (Arr.mat r c l).flattenF[j * r + i]? = l[i * c + j]? := by
  show ((List.range c).flatMap fun j => (List.range r).filterMap fun i => l[i * c + j]?)[j * r + i]?
    = l[i * c + j]?
  rw [flatMap_range_getElem? r _ c (fun j hj => mat_col_length r c l hl j hj) j i hj hi,
    filterMap_getElem?_of_isSome _ _ (mat_col_isSome r c l hl j hj), List.getElem?_range hi,
    Option.bind_some]

theorem flattenF_mat_length {α : Type} (r c : Nat) (l : List α) (hl : l.length = r * c) :
    (Arr.mat r c l).flattenF.length = r * c := by
  show ((List.range c).flatMap fun j => (List.range r).filterMap fun i => l[i * c + j]?).length
    = r * c
  rw [flatMap_range_length r _ c (fun j hj => mat_col_length r c l hl j hj), Nat.mul_comm]

/-- Wells and volumes given as arrays of the same shape are paired element-wise. -/
theorem flattenF_pairs {α β : Type} (r c : Nat) (ws : List α) (vs : List β) (hw : ws.length = r * c) (hv : vs.length = r * c) :
    (Arr.mat r c ws).flattenF.zip (Arr.mat r c vs).flattenF = (Arr.mat r c (ws.zip vs)).flattenF := by
  have hz : (ws.zip vs).length = r * c := by rw [List.length_zip, hw, hv, Nat.min_self]
  apply List.ext_getElem?
  intro n
  by_cases hn : n < r * c
  · have hr : 0 < r := by
      rcases Nat.eq_zero_or_pos r with h0 | h0
      · rw [h0, Nat.zero_mul] at hn; cases hn
      · exact h0
    have hi : n % r < r := Nat.mod_lt _ hr
    have hj : n / r < c := by
      rw [Nat.div_lt_iff_lt_mul hr, Nat.mul_comm]; exact hn
    have hsplit : n = n / r * r + n % r := (Nat.div_add_mod' n r).symm
    rw [hsplit, List.zip_eq_zipWith, List.getElem?_zipWith',
      flattenF_mat_get r c ws _ _ hw hi hj, flattenF_mat_get r c vs _ _ hv hi hj,
      flattenF_mat_get r c _ _ _ hz hi hj, ← List.getElem?_zipWith', ← List.zip_eq_zipWith]
  · have hn' : r * c ≤ n := Nat.le_of_not_lt hn
    rw [List.getElem?_eq_none, List.getElem?_eq_none]
    · rw [flattenF_mat_length r c _ hz]; exact hn'
    · rw [List.length_zip, flattenF_mat_length r c _ hw, flattenF_mat_length r c _ hv, Nat.min_self]
      exact hn'

/-- In a trough every virtual-row ID of a column addresses the same single real well. -/
theorem trough_alias (V C vr c : Nat) (hV : V ≤ 26) (hvr : vr < V) (hc : c < C) :
    ({ rows := 1, cols := C, vrows := some V } : Geom).resolveFlat (wellId vr c) = some c := by
  have h := C08.resolve_trough V C vr c hV hvr hc
  unfold C08.trough at h
  simp only [Geom.resolveFlat, h, Option.map_some, Geom.flat, Nat.zero_mul, Nat.zero_add]

/-- On a plate every ID addresses its own real well (row-major index). -/
theorem plate_index (R C r c : Nat) (hR : R ≤ 26) (hr : r < R) (hc : c < C) :
    ({ rows := R, cols := C, vrows := none } : Geom).resolveFlat (wellId r c) = some (r * C + c) := by
  have h := C08.resolve_plate R C r c hR hr hc
  unfold C08.plate at h
  simp only [Geom.resolveFlat, h, Option.map_some, Geom.flat]

/-- A well listed several times is charged once per occurrence: the booked total of a list of
    steps on well `i` is the sum over all occurrences. -/
theorem repeat_charged (l : Nat) (idx : List Nat) (vs : List Rat) (i : Nat) :
    (((idx.zip vs).map (fun (j, v) => Micro.ad l j v .none)).map (delta l i)).sum
      = ((idx.zip vs).map (fun (j, v) => if j = i then v else 0)).sum := by
  rw [List.map_map]
  congr 1
  apply List.map_congr_left
  rintro ⟨j, v⟩ _
  simp only [Function.comp, delta_ad, true_and]

example : delta 0 3 (.rm 0 3 5) = -5 ∧ delta 0 3 (.ad 0 2 5 .none) = 0 := by decide +kernel

end Robotools.C04
