/-
  C15 — well transforms are exact inverses and geometrically correct.
  `numpy.random.RandomState(seed).permutation` is a parameter of the model (DESIGN §3.3): the
  randomiser theorems hold for ANY permutation of the plate; that the permutation is determined by
  the seed is observed by the harness, not proved.
-/
import Robotools.Model.Transform
import Robotools.Props.C08
import Robotools.Proofs.TransformLemmas
namespace Robotools.C15
open Robotools

/-- Shifting adds the fixed row/column offset of the anchor well. -/
theorem shift_offset (rA cA rB cB : Nat) (anchor : String) (s : Shifter) (w : String) (r c : Nat)
    (hB : rB ≤ 26) (hs : Shifter.mk? rA cA rB cB anchor = .ok s) (hw : indexOf rA cA w = some (r, c)) :
    s.shift1 w = .ok (wellId (r + s.dr) (c + s.dc)) ∧ indexOf rB cB anchor = some (s.dr, s.dc) := by
  obtain ⟨dr, dc, hidx, h1, h2, rfl⟩ := Shifter.mk?_ok hs
  obtain ⟨_, hr, hr26, hc⟩ := indexOf_some hw
  refine ⟨?_, hidx⟩
  have hwa := wellAt_of_nat (R := rB) (C := cB) (i := (r : Int) + (dr : Int)) (j := (c : Int) + (dc : Int))
    (r := r + dr) (c := c + dc) (by omega) (by omega) (by omega) (by omega) (by omega)
  unfold Shifter.shift1
  simp only [hw, hwa]

/-- The shift is refused exactly when the anchor is unknown or the source plate does not fit. -/
theorem shift_refused_iff (rA cA rB cB : Nat) (anchor : String) :
    (∃ e, Shifter.mk? rA cA rB cB anchor = .error e) ↔
      (indexOf rB cB anchor = none ∨ ∃ dr dc, indexOf rB cB anchor = some (dr, dc) ∧ (rB < rA + dr ∨ cB < cA + dc)) := by
  unfold Shifter.mk?
  cases h : indexOf rB cB anchor with
  | none => simp
  | some p =>
    obtain ⟨dr, dc⟩ := p
    simp only [reduceCtorEq, false_or, Option.some.injEq, Prod.mk.injEq]
    constructor
    · rintro ⟨e, he⟩
      refine ⟨dr, dc, ⟨rfl, rfl⟩, ?_⟩
      by_cases h1 : rB < rA + dr
      · exact Or.inl h1
      · by_cases h2 : cB < cA + dc
        · exact Or.inr h2
        · rw [if_neg h1, if_neg h2] at he; cases he
    · rintro ⟨dr', dc', ⟨rfl, rfl⟩, h12⟩
      by_cases h1 : rB < rA + dr
      · exact ⟨_, by rw [if_pos h1]⟩
      · have h2 : cB < cA + dc := by omega
        exact ⟨_, by rw [if_neg h1, if_pos h2]⟩

/-- shift and unshift are mutually inverse. -/
theorem unshift_shift (rA cA rB cB : Nat) (anchor : String) (s : Shifter) (w x : String)
    (hA : rA ≤ 26) (hB : rB ≤ 26) (hs : Shifter.mk? rA cA rB cB anchor = .ok s) (h : s.shift1 w = .ok x) :
    s.unshift1 x = .ok w := by
  cases hw : indexOf rA cA w with
  | none =>
    obtain ⟨dr, dc, hidx, h1, h2, rfl⟩ := Shifter.mk?_ok hs
    unfold Shifter.shift1 at h
    simp only [hw] at h
    cases h
  | some p =>
    obtain ⟨r, c⟩ := p
    have hso := (shift_offset rA cA rB cB anchor s w r c hB hs hw).1
    rw [hso] at h
    obtain ⟨dr, dc, hidx, h1, h2, rfl⟩ := Shifter.mk?_ok hs
    obtain ⟨rfl, hr, hr26, hc⟩ := indexOf_some hw
    cases h
    have hix := indexOf_wellId (R := rB) (C := cB) (r := r + dr) (c := c + dc) hB (by omega) (by omega)
    have hwa := wellAt_of_nat (R := rA) (C := cA) (i := ((r + dr : Nat) : Int) - (dr : Int))
      (j := ((c + dc : Nat) : Int) - (dc : Int))
      (r := r) (c := c) (by omega) (by omega) (by omega) (by omega) (by omega)
    unfold Shifter.unshift1
    simp only [hix, hwa]

theorem shift_unshift (rA cA rB cB : Nat) (anchor : String) (s : Shifter) (w x : String) (r c : Nat)
    (hA : rA ≤ 26) (hB : rB ≤ 26) (hs : Shifter.mk? rA cA rB cB anchor = .ok s)
    (hx : indexOf rB cB x = some (r, c)) (hr : s.dr ≤ r) (hc : s.dc ≤ c) (h : s.unshift1 x = .ok w) :
    s.shift1 w = .ok x := by
  obtain ⟨dr, dc, hidx, h1, h2, rfl⟩ := Shifter.mk?_ok hs
  simp only at hr hc
  obtain ⟨rfl, hrB, hr26, hcB⟩ := indexOf_some hx
  unfold Shifter.unshift1 at h
  simp only [hx] at h
  cases hwa : wellAt rA cA ((r : Int) - (dr : Int)) ((c : Int) - (dc : Int)) with
  | none => rw [hwa] at h; cases h
  | some y =>
    rw [hwa] at h
    cases h
    obtain ⟨rfl, hr', hr26', hc'⟩ := wellAt_some (by omega) (by omega) hwa
    have e1 : ((r : Int) - (dr : Int)).toNat = r - dr := by omega
    have e2 : ((c : Int) - (dc : Int)).toNat = c - dc := by omega
    rw [e1, e2] at *
    have hix := indexOf_wellId (R := rA) (C := cA) (r := r - dr) (c := c - dc) hA (by omega) (by omega)
    have hwb := wellAt_of_nat (R := rB) (C := cB) (i := ((r - dr : Nat) : Int) + (dr : Int))
      (j := ((c - dc : Nat) : Int) + (dc : Int))
      (r := r) (c := c) (by omega) (by omega) (by omega) (by omega) (by omega)
    unfold Shifter.shift1
    simp only [hix, hwb]

/-- A clockwise rotation maps (r, c) to (c, R-1-r) of the transposed plate. -/
theorem rotate_cw_formula (R C : Nat) (w : String) (r c : Nat) (hR : R ≤ 26) (hC : C ≤ 26)
    (hw : indexOf R C w = some (r, c)) : rotateCw1 R C w = .ok (wellId c (R - 1 - r)) := by
  obtain ⟨_, hr, hr26, hc⟩ := indexOf_some hw
  have hwa := wellAt_of_nat (R := C) (C := R) (i := (c : Int)) (j := (R : Int) - (r : Int) - 1)
    (r := c) (c := R - 1 - r) rfl (by omega) (by omega) (by omega) (by omega)
  unfold rotateCw1
  simp only [hw, hwa]

theorem rotate_ccw_formula (R C : Nat) (w : String) (r c : Nat) (hR : R ≤ 26) (hC : C ≤ 26)
    (hw : indexOf R C w = some (r, c)) : rotateCcw1 R C w = .ok (wellId (C - 1 - c) r) := by
  obtain ⟨_, hr, hr26, hc⟩ := indexOf_some hw
  have hwa := wellAt_of_nat (R := C) (C := R) (i := (C : Int) - (c : Int) - 1) (j := (r : Int))
    (r := C - 1 - c) (c := r) (by omega) rfl (by omega) (by omega) (by omega)
  unfold rotateCcw1
  simp only [hw, hwa]

private theorem cw_ok (R C : Nat) (w x : String) (hR : R ≤ 26) (hC : C ≤ 26)
    (h : rotateCw1 R C w = .ok x) :
    ∃ r c, indexOf R C w = some (r, c) ∧ r < R ∧ c < C ∧ w = wellId r c ∧ x = wellId c (R - 1 - r) := by
  cases hw : indexOf R C w with
  | none => unfold rotateCw1 at h; simp only [hw] at h; cases h
  | some p =>
    obtain ⟨r, c⟩ := p
    rw [rotate_cw_formula R C w r c hR hC hw] at h
    cases h
    obtain ⟨hwe, hr, _, hc⟩ := indexOf_some hw
    exact ⟨r, c, rfl, hr, hc, hwe, rfl⟩

private theorem ccw_ok (R C : Nat) (w x : String) (hR : R ≤ 26) (hC : C ≤ 26)
    (h : rotateCcw1 R C w = .ok x) :
    ∃ r c, indexOf R C w = some (r, c) ∧ r < R ∧ c < C ∧ w = wellId r c ∧ x = wellId (C - 1 - c) r := by
  cases hw : indexOf R C w with
  | none => unfold rotateCcw1 at h; simp only [hw] at h; cases h
  | some p =>
    obtain ⟨r, c⟩ := p
    rw [rotate_ccw_formula R C w r c hR hC hw] at h
    cases h
    obtain ⟨hwe, hr, _, hc⟩ := indexOf_some hw
    exact ⟨r, c, rfl, hr, hc, hwe, rfl⟩

/-- Rotating clockwise and then counter-clockwise (on the transposed plate) is the identity, and vice versa. -/
theorem ccw_cw (R C : Nat) (w x : String) (hR : R ≤ 26) (hC : C ≤ 26)
    (h : rotateCw1 R C w = .ok x) : rotateCcw1 C R x = .ok w := by
  obtain ⟨r, c, hw, hr, hc, rfl, rfl⟩ := cw_ok R C w x hR hC h
  rw [rotate_ccw_formula C R _ c (R - 1 - r) hC hR (indexOf_wellId hC hc (by omega))]
  have : R - 1 - (R - 1 - r) = r := by omega
  rw [this]

theorem cw_ccw (R C : Nat) (w x : String) (hR : R ≤ 26) (hC : C ≤ 26)
    (h : rotateCcw1 R C w = .ok x) : rotateCw1 C R x = .ok w := by
  obtain ⟨r, c, hw, hr, hc, rfl, rfl⟩ := ccw_ok R C w x hR hC h
  rw [rotate_cw_formula C R _ (C - 1 - c) r hC hR (indexOf_wellId hC (by omega) hr)]
  have : C - 1 - (C - 1 - c) = c := by omega
  rw [this]

/-- Four clockwise rotations are the identity. -/
theorem cw_four (R C : Nat) (w a b c : String) (hR : R ≤ 26) (hC : C ≤ 26)
    (h1 : rotateCw1 R C w = .ok a) (h2 : rotateCw1 C R a = .ok b) (h3 : rotateCw1 R C b = .ok c) :
    rotateCw1 C R c = .ok w := by
  obtain ⟨r, c', hw, hr, hc, rfl, rfl⟩ := cw_ok R C w a hR hC h1
  rw [rotate_cw_formula C R _ c' (R - 1 - r) hC hR (indexOf_wellId hC hc (by omega))] at h2
  cases h2
  rw [rotate_cw_formula R C _ (R - 1 - r) (C - 1 - c') hR hC (indexOf_wellId hR (by omega) (by omega))] at h3
  cases h3
  rw [rotate_cw_formula C R _ (C - 1 - c') (R - 1 - (R - 1 - r)) hC hR
    (indexOf_wellId hC (by omega) (by omega))]
  have e1 : R - 1 - (R - 1 - r) = r := by omega
  have e2 : C - 1 - (C - 1 - c') = c' := by omega
  rw [e1, e2]

/-- Every well of the plate can be rotated (totality on the plate), so rotation is a bijection
    between the wells of the R×C plate and those of the C×R plate (with `ccw_cw`, `cw_ccw`). -/
theorem rotate_total (R C : Nat) (r c : Nat) (hR : R ≤ 26) (hC : C ≤ 26) (hr : r < R) (hc : c < C) :
    ∃ x, rotateCw1 R C (wellId r c) = .ok x ∧ ∃ r' c', r' < C ∧ c' < R ∧ x = wellId r' c' := by
  refine ⟨_, rotate_cw_formula R C _ r c hR hC (indexOf_wellId hR hr hc), c, R - 1 - r, hc, by omega, rfl⟩

/-- Element-wise transforms preserve the shape of the array they are given. -/
theorem mapM_shape {α β : Type} (f : α → Except Err β) (a : Arr α) (b : Arr β) (h : Arr.mapM? f a = .ok b) :
    (match a, b with
     | .scalar _, .scalar _ => True
     | .vec l, .vec l' => l.length = l'.length
     | .mat r c l, .mat r' c' l' => r = r' ∧ c = c' ∧ l.length = l'.length
     | _, _ => False) := by
  cases a with
  | scalar x =>
    simp only [Arr.mapM?] at h
    cases hf : f x with
    | error e => rw [hf] at h; cases h
    | ok y => rw [hf] at h; cases h; trivial
  | vec l =>
    simp only [Arr.mapM?] at h
    cases hf : l.mapM f with
    | error e => rw [hf] at h; cases h
    | ok l' => rw [hf] at h; cases h; exact mapM_except_length f l l' hf
  | mat r c l =>
    simp only [Arr.mapM?] at h
    cases hf : l.mapM f with
    | error e => rw [hf] at h; cases h
    | ok l' => rw [hf] at h; cases h; exact ⟨rfl, rfl, mapM_except_length f l l' hf⟩

/-- Randomisation with ANY permutation `rand` of the duplicate-free well list `orig`:
    derandomize ∘ randomize = id and randomize ∘ derandomize = id on the plate. -/
theorem derandomize_randomize (orig rand : List String) (w : String)
    (hnd : orig.Nodup) (hp : rand.Perm orig) (hw : w ∈ orig) :
    ∃ x, randomize1 orig rand w = some x ∧ x ∈ orig ∧ derandomize1 orig rand x = some w := by
  obtain ⟨i, hi, rfl⟩ := List.getElem_of_mem hw
  have hlen : rand.length = orig.length := hp.length_eq
  have hi' : i < rand.length := by omega
  have hndr : rand.Nodup := hp.nodup_iff.2 hnd
  refine ⟨rand[i], lookup_zip_getElem orig rand i hi hi' hnd, hp.mem_iff.1 (List.getElem_mem _), ?_⟩
  exact lookup_zip_getElem rand orig i hi' hi hndr

theorem randomize_derandomize (orig rand : List String) (x : String)
    (hnd : orig.Nodup) (hp : rand.Perm orig) (hx : x ∈ orig) :
    ∃ w, derandomize1 orig rand x = some w ∧ w ∈ orig ∧ randomize1 orig rand w = some x := by
  have hx' : x ∈ rand := hp.mem_iff.2 hx
  obtain ⟨i, hi', rfl⟩ := List.getElem_of_mem hx'
  have hlen : rand.length = orig.length := hp.length_eq
  have hi : i < orig.length := by omega
  have hndr : rand.Nodup := hp.nodup_iff.2 hnd
  refine ⟨orig[i], lookup_zip_getElem rand orig i hi' hi hndr, List.getElem_mem _, ?_⟩
  exact lookup_zip_getElem orig rand i hi hi' hnd

/-- Randomisation is injective on the plate (a permutation of the plate). -/
theorem randomize_injective (orig rand : List String) (w₁ w₂ x : String)
    (hnd : orig.Nodup) (hp : rand.Perm orig) (h₁ : randomize1 orig rand w₁ = some x) (h₂ : randomize1 orig rand w₂ = some x) :
    w₁ = w₂ := by
  have hndr : rand.Nodup := hp.nodup_iff.2 hnd
  obtain ⟨i, hi1, hi2, rfl, hxi⟩ := lookup_zip_some h₁
  obtain ⟨j, hj1, hj2, rfl, hxj⟩ := lookup_zip_some h₂
  have : i = j := (hndr.getElem_inj_iff).1 (hxi.trans hxj.symm)
  subst this
  rfl

/-- Whatever relation holds position-wise between `orig` and `rand` (same row in row mode, same
    column in column mode) holds between every well and its image. -/
theorem randomize_keeps (orig rand : List String) (Rel : String → String → Prop)
    (hrel : ∀ p ∈ orig.zip rand, Rel p.1 p.2) (w x : String) (h : randomize1 orig rand w = some x) : Rel w x := by
  exact hrel (w, x) (mem_of_lookup_eq_some h)

example : (rotateCw1 2 3 "A01").toOption = some "A02" := by decide +kernel
example : (Shifter.mk? 2 2 4 4 "B02").toOption.map (fun s => (s.dr, s.dc)) = some (1, 1) := by decide +kernel

end Robotools.C15
