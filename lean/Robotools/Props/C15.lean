/-
  C15 — well transforms are exact inverses and geometrically correct.
  `numpy.random.RandomState(seed).permutation` is a parameter of the model (DESIGN §3.3): the
  randomiser theorems hold for ANY permutation of the plate; that the permutation is determined by
  the seed is observed by the harness, not proved.
-/
import Robotools.Model.Transform
namespace Robotools.C15
open Robotools

/-- Shifting adds the fixed row/column offset of the anchor well. -/
theorem shift_offset (rA cA rB cB : Nat) (anchor : String) (s : Shifter) (w : String) (r c : Nat)
    (hB : rB ≤ 26) (hs : Shifter.mk? rA cA rB cB anchor = .ok s) (hw : indexOf rA cA w = some (r, c)) :
    s.shift1 w = .ok (wellId (r + s.dr) (c + s.dc)) ∧ indexOf rB cB anchor = some (s.dr, s.dc) := by
  sorry

/-- The shift is refused exactly when the anchor is unknown or the source plate does not fit. -/
theorem shift_refused_iff (rA cA rB cB : Nat) (anchor : String) :
    (∃ e, Shifter.mk? rA cA rB cB anchor = .error e) ↔
      (indexOf rB cB anchor = none ∨ ∃ dr dc, indexOf rB cB anchor = some (dr, dc) ∧ (rB < rA + dr ∨ cB < cA + dc)) := by
  sorry

/-- shift and unshift are mutually inverse. -/
theorem unshift_shift (rA cA rB cB : Nat) (anchor : String) (s : Shifter) (w x : String)
    (hA : rA ≤ 26) (hB : rB ≤ 26) (hs : Shifter.mk? rA cA rB cB anchor = .ok s) (h : s.shift1 w = .ok x) :
    s.unshift1 x = .ok w := by
  sorry

theorem shift_unshift (rA cA rB cB : Nat) (anchor : String) (s : Shifter) (w x : String) (r c : Nat)
    (hA : rA ≤ 26) (hB : rB ≤ 26) (hs : Shifter.mk? rA cA rB cB anchor = .ok s)
    (hx : indexOf rB cB x = some (r, c)) (hr : s.dr ≤ r) (hc : s.dc ≤ c) (h : s.unshift1 x = .ok w) :
    s.shift1 w = .ok x := by
  sorry

/-- A clockwise rotation maps (r, c) to (c, R-1-r) of the transposed plate. -/
theorem rotate_cw_formula (R C : Nat) (w : String) (r c : Nat) (hR : R ≤ 26) (hC : C ≤ 26)
    (hw : indexOf R C w = some (r, c)) : rotateCw1 R C w = .ok (wellId c (R - 1 - r)) := by
  sorry

theorem rotate_ccw_formula (R C : Nat) (w : String) (r c : Nat) (hR : R ≤ 26) (hC : C ≤ 26)
    (hw : indexOf R C w = some (r, c)) : rotateCcw1 R C w = .ok (wellId (C - 1 - c) r) := by
  sorry

/-- Rotating clockwise and then counter-clockwise (on the transposed plate) is the identity, and vice versa. -/
theorem ccw_cw (R C : Nat) (w x : String) (hR : R ≤ 26) (hC : C ≤ 26)
    (h : rotateCw1 R C w = .ok x) : rotateCcw1 C R x = .ok w := by
  sorry

theorem cw_ccw (R C : Nat) (w x : String) (hR : R ≤ 26) (hC : C ≤ 26)
    (h : rotateCcw1 R C w = .ok x) : rotateCw1 C R x = .ok w := by
  sorry

/-- Four clockwise rotations are the identity. -/
theorem cw_four (R C : Nat) (w a b c : String) (hR : R ≤ 26) (hC : C ≤ 26)
    (h1 : rotateCw1 R C w = .ok a) (h2 : rotateCw1 C R a = .ok b) (h3 : rotateCw1 R C b = .ok c) :
    rotateCw1 C R c = .ok w := by
  sorry

/-- Every well of the plate can be rotated (totality on the plate), so rotation is a bijection
    between the wells of the R×C plate and those of the C×R plate (with `ccw_cw`, `cw_ccw`). -/
theorem rotate_total (R C : Nat) (r c : Nat) (hR : R ≤ 26) (hC : C ≤ 26) (hr : r < R) (hc : c < C) :
    ∃ x, rotateCw1 R C (wellId r c) = .ok x ∧ ∃ r' c', r' < C ∧ c' < R ∧ x = wellId r' c' := by
  sorry

/-- Element-wise transforms preserve the shape of the array they are given. -/
theorem mapM_shape {α β : Type} (f : α → Except Err β) (a : Arr α) (b : Arr β) (h : Arr.mapM? f a = .ok b) :
    (match a, b with
     | .scalar _, .scalar _ => True
     | .vec l, .vec l' => l.length = l'.length
     | .mat r c l, .mat r' c' l' => r = r' ∧ c = c' ∧ l.length = l'.length
     | _, _ => False) := by
  sorry

/-- Randomisation with ANY permutation `rand` of the duplicate-free well list `orig`:
    derandomize ∘ randomize = id and randomize ∘ derandomize = id on the plate. -/
theorem derandomize_randomize (orig rand : List String) (w : String)
    (hnd : orig.Nodup) (hp : rand.Perm orig) (hw : w ∈ orig) :
    ∃ x, randomize1 orig rand w = some x ∧ x ∈ orig ∧ derandomize1 orig rand x = some w := by
  sorry

theorem randomize_derandomize (orig rand : List String) (x : String)
    (hnd : orig.Nodup) (hp : rand.Perm orig) (hx : x ∈ orig) :
    ∃ w, derandomize1 orig rand x = some w ∧ w ∈ orig ∧ randomize1 orig rand w = some x := by
  sorry

/-- Randomisation is injective on the plate (a permutation of the plate). -/
theorem randomize_injective (orig rand : List String) (w₁ w₂ x : String)
    (hnd : orig.Nodup) (hp : rand.Perm orig) (h₁ : randomize1 orig rand w₁ = some x) (h₂ : randomize1 orig rand w₂ = some x) :
    w₁ = w₂ := by
  sorry

/-- Whatever relation holds position-wise between `orig` and `rand` (same row in row mode, same
    column in column mode) holds between every well and its image. -/
theorem randomize_keeps (orig rand : List String) (Rel : String → String → Prop)
    (hrel : ∀ p ∈ orig.zip rand, Rel p.1 p.2) (w x : String) (h : randomize1 orig rand w = some x) : Rel w x := by
  sorry

example : (rotateCw1 2 3 "A01").toOption = some "A02" := by decide +kernel
example : (Shifter.mk? 2 2 4 4 "B02").toOption.map (fun s => (s.dr, s.dc)) = some (1, 1) := by decide +kernel

end Robotools.C15
