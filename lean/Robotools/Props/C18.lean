/-
  C18 — column partitioning keeps triples intact, groups by column and orders by row.
-/
import Robotools.Model.Plan
namespace Robotools.C18
open Robotools

/-- The groups together contain exactly the input triples (as a multiset; no triple torn apart). -/
theorem perm (ts : List Triple) (byDest : Bool) :
    (partitionByColumn ts byDest).flatten.Perm ts := by
  sorry

/-- Every group holds wells of a single column of the partitioning side:
    the `i`-th group consists of triples whose column key is the `i`-th group key. -/
theorem single_column (ts : List Triple) (byDest : Bool) (i : Nat) (g : List Triple) (k : List Nat)
    (hg : (partitionByColumn ts byDest)[i]? = some g) (hk : (groupKeys byDest ts)[i]? = some k) :
    ∀ t ∈ g, t.group byDest = k := by
  sorry

/-- There are as many groups as distinct column keys, none of them empty. -/
theorem groups_nonempty (ts : List Triple) (byDest : Bool) :
    (partitionByColumn ts byDest).length = (groupKeys byDest ts).length
    ∧ ∀ g ∈ partitionByColumn ts byDest, g ≠ [] := by
  sorry

/-- Groups are ordered by strictly ascending column key. -/
theorem groups_sorted (ts : List Triple) (byDest : Bool) :
    (groupKeys byDest ts).Pairwise (· < ·) := by
  sorry

/-- Every column key that occurs in the input has a group, and only those. -/
theorem group_keys_complete (ts : List Triple) (byDest : Bool) (k : List Nat) :
    k ∈ groupKeys byDest ts ↔ ∃ t ∈ ts, t.group byDest = k := by
  sorry

/-- Within a group the triples are ordered by ascending well ID of the partitioning side
    (rows ascending, since all wells of a group share the column suffix). -/
theorem rows_sorted (ts : List Triple) (byDest : Bool) :
    ∀ g ∈ partitionByColumn ts byDest, g.Pairwise (fun a b => a.key byDest ≤ b.key byDest) := by
  sorry

/-- The automatic choice partitions by destination exactly when the source is a trough and the
    destination is not; explicit choices are respected; other names are rejected. -/
theorem auto_rule (s d : Bool) :
    optimizePartitionBy s d "auto" = some (s && !d) := by
  sorry

theorem explicit_respected (s d : Bool) :
    optimizePartitionBy s d "source" = some false ∧ optimizePartitionBy s d "destination" = some true := by
  sorry

theorem invalid_mode_rejected (s d : Bool) (m : String)
    (h : m ≠ "auto" ∧ m ≠ "source" ∧ m ≠ "destination") : optimizePartitionBy s d m = none := by
  sorry

example : partitionByColumn [⟨"B02", "A01", 1⟩, ⟨"A01", "B01", 2⟩, ⟨"A02", "C01", 3⟩] false
    = [[⟨"A01", "B01", 2⟩], [⟨"A02", "C01", 3⟩, ⟨"B02", "A01", 1⟩]] := by decide +kernel

end Robotools.C18
