/-
  C18 — column partitioning keeps triples intact, groups by column and orders by row.
-/
import Robotools.Model.Plan
import Robotools.Proofs.PlanLemmas
namespace Robotools.C18
open Robotools

/-- The groups together contain exactly the input triples (as a multiset; no triple torn apart). -/
theorem perm (ts : List Triple) (byDest : Bool) :
    (partitionByColumn ts byDest).flatten.Perm ts := by
  exact partitionByColumn_flatten_perm ts byDest

/-- Every group holds wells of a single column of the partitioning side:
    the `i`-th group consists of triples whose column key is the `i`-th group key. -/
theorem single_column (ts : List Triple) (byDest : Bool) (i : Nat) (g : List Triple) (k : List Nat)
    (hg : (partitionByColumn ts byDest)[i]? = some g) (hk : (groupKeys byDest ts)[i]? = some k) :
    ∀ t ∈ g, t.group byDest = k := by
  unfold partitionByColumn at hg
  rw [List.getElem?_map, hk] at hg
  simp only [Option.map_some, Option.some.injEq] at hg
  subst hg
  intro t ht
  rw [List.mem_mergeSort, List.mem_filter] at ht
  simpa using ht.2

/-- There are as many groups as distinct column keys, none of them empty. -/
theorem groups_nonempty (ts : List Triple) (byDest : Bool) :
    (partitionByColumn ts byDest).length = (groupKeys byDest ts).length
    ∧ ∀ g ∈ partitionByColumn ts byDest, g ≠ [] := by
  refine ⟨by simp [partitionByColumn], ?_⟩
  intro g hg
  unfold partitionByColumn at hg
  obtain ⟨k, hk, rfl⟩ := List.mem_map.mp hg
  obtain ⟨t, ht, htk⟩ := (mem_groupKeys byDest ts k).mp hk
  have hmem : t ∈ (ts.filter fun t => t.group byDest = k).mergeSort
      (fun a b => a.key byDest ≤ b.key byDest) := by
    rw [List.mem_mergeSort, List.mem_filter]
    exact ⟨ht, by simpa using htk⟩
  exact List.ne_nil_of_mem hmem

/-- Groups are ordered by strictly ascending column key. -/
theorem groups_sorted (ts : List Triple) (byDest : Bool) :
    (groupKeys byDest ts).Pairwise (· < ·) := by
  exact pairwise_groupKeys byDest ts

/-- Every column key that occurs in the input has a group, and only those. -/
theorem group_keys_complete (ts : List Triple) (byDest : Bool) (k : List Nat) :
    k ∈ groupKeys byDest ts ↔ ∃ t ∈ ts, t.group byDest = k := by
  exact mem_groupKeys byDest ts k

/-- Within a group the triples are ordered by ascending well ID of the partitioning side
    (rows ascending, since all wells of a group share the column suffix). -/
theorem rows_sorted (ts : List Triple) (byDest : Bool) :
    ∀ g ∈ partitionByColumn ts byDest, g.Pairwise (fun a b => a.key byDest ≤ b.key byDest) := by
  intro g hg
  unfold partitionByColumn at hg
  obtain ⟨k, _, rfl⟩ := List.mem_map.mp hg
  have h := List.pairwise_mergeSort
    (le := fun a b : Triple => decide (a.key byDest ≤ b.key byDest))
    (fun a b c hab hbc => by
      simp only [decide_eq_true_eq] at hab hbc ⊢
      exact key_le_trans hab hbc)
    (fun a b => by
      simp only [Bool.or_eq_true, decide_eq_true_eq]
      exact key_le_total _ _)
    (ts.filter fun t => t.group byDest = k)
  exact h.imp fun {a b} hab => by simpa using hab

/-- The automatic choice partitions by destination exactly when the source is a trough and the
    destination is not; explicit choices are respected; other names are rejected. -/
theorem auto_rule (s d : Bool) :
    optimizePartitionBy s d "auto" = some (s && !d) := by
  simp [optimizePartitionBy]

theorem explicit_respected (s d : Bool) :
    optimizePartitionBy s d "source" = some false ∧ optimizePartitionBy s d "destination" = some true := by
  constructor <;> simp [optimizePartitionBy] <;> decide

theorem invalid_mode_rejected (s d : Bool) (m : String)
    (h : m ≠ "auto" ∧ m ≠ "source" ∧ m ≠ "destination") : optimizePartitionBy s d m = none := by
  simp [optimizePartitionBy, h.1, h.2.1, h.2.2]

example : partitionByColumn [⟨"B02", "A01", 1⟩, ⟨"A01", "B01", 2⟩, ⟨"A02", "C01", 3⟩] false
    = [[⟨"A01", "B01", 2⟩], [⟨"A02", "C01", 3⟩, ⟨"B02", "A01", 1⟩]] := by
  -- `List.mergeSort` is defined by well-founded recursion, so `decide` cannot evaluate it;
  -- evaluate the keys by kernel reduction and unfold the sort with `simp`.
  have hk : groupKeys false [⟨"B02", "A01", 1⟩, ⟨"A01", "B01", 2⟩, ⟨"A02", "C01", 3⟩]
      = [[48, 49], [48, 50]] := by decide +kernel
  unfold partitionByColumn
  rw [hk]
  simp +decide [List.mergeSort, Triple.group, Triple.key, strKey, List.filter]

end Robotools.C18
