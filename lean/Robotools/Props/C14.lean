/-
  C14 — a DilutionPlan is self-consistent (plan level).

  `planFrom` (Model/Dilution.lean) is `DilutionPlan.__init__` after the matrix of ideal target
  concentrations is known; `numpy.linspace/exp/log` produce that matrix and are NOT modelled: the
  theorems hold for EVERY matrix `ideal`, which over-approximates whatever those functions return.
  * `planFrom_ok`: every returned plan prepares each column exactly once, in order; all transfer volumes
    are whole numbers with `min_transfer ≤ v ≤ vmax` of the target column; every column is prepared from
    the stock or from a column prepared EARLIER; the reported concentrations are exactly those implied by
    the instructions (recursively, in exact arithmetic); the serial-dilution depth is consistent; and
    for every well of every column the instructions never draw more than the column's `vmax`
    (`drawn ≤ vmax`, the per-well budget).
  * `planFrom_none_stuck`: a request is refused (`none` = ValueError) only when some column can be
    prepared neither from the stock nor from any earlier column — never a partial plan.
  PARTIAL w.r.t. the property: execution with `to_worklist` (tracked composition = reported
  concentration, stock/diluent consumption) is decided by the correspondence check and the execution
  oracle on the real code, not by a theorem; float rounding near ties is not modelled (DESIGN §6 C14).
-/
import Robotools.Proofs.DilutionLemmas
namespace Robotools.C14
open Robotools Dil

/-- The plan-level clauses of the property, for a plan with `C` columns and `R` rows. -/
def PlanOK (R C : Nat) (stock minT : Rat) (vmax : List Rat) (p : DPlan) : Prop :=
  p.instr.length = C ∧ p.x.length = C
    ∧ (∀ i, i < C → InstrOK R stock minT vmax p.instr p.x i)
    ∧ ∀ j, j < C → ∀ r, r < R → drawn p.instr j r ≤ vmax.getD j 0

theorem le_of_sub_nonneg (a d vm : Rat) (e : a = vm - d) (h : 0 ≤ a) : d ≤ vm := by grind

/-- **Main theorem.** Every plan the algorithm returns satisfies the plan-level clauses, whatever the
    ideal targets are. -/
theorem planFrom_ok (R C : Nat) (stock minT : Rat) (vmax ideal : List Rat) (p : DPlan)
    (hvm : ∀ c, 0 ≤ vmax.getD c 0) (h : planFrom R C stock vmax minT ideal = some p) :
    PlanOK R C stock minT vmax p := by
  unfold planFrom at h
  cases hf : (List.range C).foldl (fun st c => st.bind fun s => planCol R C stock minT vmax ideal s c)
      (some (⟨[], [], []⟩, true)) with
  | none => rw [hf] at h; cases h
  | some st =>
    obtain ⟨p0, b0⟩ := st
    rw [hf] at h
    simp only [Option.map_some, Option.some.injEq] at h
    subst h
    have inv := fold_inv hvm C p0 b0 hf
    refine ⟨inv.len_i, inv.len_x, inv.instr_ok, ?_⟩
    intro j hj r hr
    obtain ⟨_, hav⟩ := inv.avail_ok j hj
    obtain ⟨e, hn⟩ := hav r hr
    exact le_of_sub_nonneg _ _ _ e hn

/-- Whole microlitres within `[min_transfer, vmax]` — the volume clause spelled out. -/
theorem volumes_ok (R C : Nat) (stock minT : Rat) (vmax ideal : List Rat) (p : DPlan)
    (hvm : ∀ c, 0 ≤ vmax.getD c 0) (h : planFrom R C stock vmax minT ideal = some p)
    (i : Nat) (hi : i < C) (v : Rat) (hv : v ∈ (p.instr.getD i default).vols) :
    isWhole v ∧ minT ≤ v ∧ v ≤ vmax.getD i 0 :=
  ((planFrom_ok R C stock minT vmax ideal p hvm h).2.2.1 i hi).2.2.2.1 v hv

/-- Every column is prepared from the stock or from a column prepared earlier. -/
theorem sources_earlier (R C : Nat) (stock minT : Rat) (vmax ideal : List Rat) (p : DPlan)
    (hvm : ∀ c, 0 ≤ vmax.getD c 0) (h : planFrom R C stock vmax minT ideal = some p)
    (i : Nat) (hi : i < C) (j : Nat) (hs : (p.instr.getD i default).src = some j) : j < i := by
  have := ((planFrom_ok R C stock minT vmax ideal p hvm h).2.2.1 i hi).2.2.2.2
  rw [hs] at this
  exact this.1

/-- The plan never draws more from a well of a column than the column holds. -/
theorem budget (R C : Nat) (stock minT : Rat) (vmax ideal : List Rat) (p : DPlan)
    (hvm : ∀ c, 0 ≤ vmax.getD c 0) (h : planFrom R C stock vmax minT ideal = some p)
    (j : Nat) (hj : j < C) (r : Nat) (hr : r < R) : drawn p.instr j r ≤ vmax.getD j 0 :=
  (planFrom_ok R C stock minT vmax ideal p hvm h).2.2.2 j hj r hr

theorem fold_none_stuck {σ : Type} (f : σ → Nat → Option σ) (l : List Nat) (s0 : σ)
    (h : l.foldl (fun st c => st.bind fun s => f s c) (some s0) = none) :
    ∃ pre c post st, l = pre ++ c :: post
      ∧ pre.foldl (fun st c => st.bind fun s => f s c) (some s0) = some st ∧ f st c = none := by
  induction l generalizing s0 with
  | nil => simp at h
  | cons c t ih =>
    simp only [List.foldl_cons, Option.bind_some] at h
    cases hc : f s0 c with
    | none => exact ⟨[], c, t, s0, rfl, rfl, hc⟩
    | some s1 =>
      rw [hc] at h
      obtain ⟨pre, c', post, st, hl, hf, hn⟩ := ih s1 h
      refine ⟨c :: pre, c', post, st, by rw [hl]; rfl, ?_, hn⟩
      simp only [List.foldl_cons, Option.bind_some, hc]
      exact hf

/-- A request is refused (`none` = ValueError) only because some column — after all earlier columns were
    planned — can be prepared neither from the stock nor from any earlier column; there is no third
    outcome and never a partial plan. -/
theorem planFrom_none_stuck (R C : Nat) (stock minT : Rat) (vmax ideal : List Rat)
    (h : planFrom R C stock vmax minT ideal = none) :
    ∃ pre c post st, List.range C = pre ++ c :: post
      ∧ pre.foldl (fun st c => st.bind fun s => planCol R C stock minT vmax ideal s c) (some (⟨[], [], []⟩, true)) = some st
      ∧ planCol R C stock minT vmax ideal st c = none := by
  unfold planFrom at h
  rw [Option.map_eq_none_iff] at h
  exact fold_none_stuck _ _ _ h

example : (planFrom 2 2 10 [100, 100] 10 [10, 1, 5, 1 / 2]).isSome = true := by decide +kernel
example : (planFrom 1 2 10 [100, 100] 60 [10, 1]).isSome = false := by decide +kernel

end Robotools.C14
