/-
  C10 — tip selections encode to the Tecan tip bit mask.
-/
import Robotools.Model.Records
import Robotools.Model.EvoCmd
import Robotools.Proofs.TipLemmas
namespace Robotools.C10
open Robotools

/-- The value of a valid tip symbol: tip number n ↦ 2^(n-1), a `Tip` member ↦ its value. -/
def symValue : TipSym → Option Nat
  | .int n => if 1 ≤ n ∧ n ≤ 8 then some (2 ^ (n.toNat - 1)) else none
  | .member v => if v ∈ [1, 2, 4, 8, 16, 32, 64, 128] then some v.toNat else none
  | .bad => none

/-- The per-element conversion used by `tipMask (.many _)`. -/
private def tipElem (e : TipSym) : Except Err Nat :=
  match e with
  | .int n => intToTip n
  | .member v => if v = -1 then .error .valueErr else pure v.toNat
  | .bad => .error .valueErr

private theorem tipMask_many (l : List TipSym) :
    tipMask (.many l) = (l.mapM tipElem >>= fun vs => pure (some (sumSet vs))) := rfl

private theorem intToTip_ok (n : Int) (h : 1 ≤ n ∧ n ≤ 8) :
    intToTip n = .ok (2 ^ (n.toNat - 1)) ∧ 2 ^ (n.toNat - 1) ∈ pows := by
  have : n = 1 ∨ n = 2 ∨ n = 3 ∨ n = 4 ∨ n = 5 ∨ n = 6 ∨ n = 7 ∨ n = 8 := by omega
  rcases this with rfl | rfl | rfl | rfl | rfl | rfl | rfl | rfl <;> exact ⟨rfl, by decide⟩

private theorem intToTip_err (n : Int) (h : ¬ (1 ≤ n ∧ n ≤ 8)) : intToTip n = .error .valueErr := by
  have h1 : (n == 1) = false := by simp; omega
  have h2 : (n == 2) = false := by simp; omega
  have h3 : (n == 3) = false := by simp; omega
  have h4 : (n == 4) = false := by simp; omega
  have h5 : (n == 5) = false := by simp; omega
  have h6 : (n == 6) = false := by simp; omega
  have h7 : (n == 7) = false := by simp; omega
  have h8 : (n == 8) = false := by simp; omega
  simp [intToTip, Spec.tipTable, List.lookup, h1, h2, h3, h4, h5, h6, h7, h8]

private theorem tipElem_ok (e : TipSym) (v : Nat) (h : symValue e = some v) :
    tipElem e = .ok v ∧ v ∈ pows := by
  cases e with
  | int n =>
    simp only [symValue] at h
    split at h
    · rename_i hn
      injection h with h
      subst h
      exact intToTip_ok n hn
    · cases h
  | member w =>
    simp only [symValue] at h
    split at h
    · rename_i hw
      injection h with h
      subst h
      simp only [List.mem_cons, List.not_mem_nil, or_false] at hw
      rcases hw with rfl | rfl | rfl | rfl | rfl | rfl | rfl | rfl <;> exact ⟨rfl, by decide⟩
    · cases h
  | bad => cases h

private theorem mapM_ok (l : List TipSym) (vs : List Nat) (h : l.mapM symValue = some vs) :
    l.mapM tipElem = .ok vs ∧ ∀ x ∈ vs, x ∈ pows := by
  induction l generalizing vs with
  | nil =>
    simp at h
    subst h
    exact ⟨rfl, by simp⟩
  | cons e rest ih =>
    rw [List.mapM_cons] at h
    cases he : symValue e with
    | none => simp [he] at h
    | some v =>
      cases hr : rest.mapM symValue with
      | none => simp [he, hr] at h
      | some ws =>
        simp [he, hr] at h
        subst h
        obtain ⟨h1, h2⟩ := tipElem_ok e v he
        obtain ⟨h3, h4⟩ := ih ws hr
        refine ⟨?_, ?_⟩
        · rw [List.mapM_cons, h1, h3]; rfl
        · intro x hx
          rcases List.mem_cons.1 hx with rfl | hx
          · exact h2
          · exact h4 x hx

private theorem tipElem_err (e : TipSym)
    (hwf : ∀ v, e = .member v → v ∈ [-1, 1, 2, 4, 8, 16, 32, 64, 128])
    (h : symValue e = none) : tipElem e = .error .valueErr := by
  cases e with
  | int n =>
    simp only [symValue] at h
    split at h
    · cases h
    · rename_i hn
      exact intToTip_err n hn
  | member w =>
    simp only [symValue] at h
    split at h
    · cases h
    · rename_i hw
      have := hwf w rfl
      simp only [List.mem_cons, List.not_mem_nil, or_false] at this hw
      rcases this with rfl | hx
      · rfl
      · exact absurd hx hw
  | bad => rfl

private theorem mapM_err (l : List TipSym)
    (hwf : ∀ v, TipSym.member v ∈ l → v ∈ [-1, 1, 2, 4, 8, 16, 32, 64, 128])
    (h : l.mapM symValue = none) : l.mapM tipElem = .error .valueErr := by
  induction l with
  | nil => simp at h
  | cons e rest ih =>
    rw [List.mapM_cons] at h
    rw [List.mapM_cons]
    cases he : symValue e with
    | none =>
      rw [tipElem_err e (fun v hv => hwf v (by simp [hv])) he]
      rfl
    | some v =>
      rw [(tipElem_ok e v he).1]
      cases hr : rest.mapM symValue with
      | none =>
        rw [ih (fun v hv => hwf v (by simp [hv])) hr]
        rfl
      | some ws => simp [he, hr] at h

/-- A tip number n in 1..8 is emitted as the mask 2^(n-1). -/
theorem mask_single (n : Nat) (h : 1 ≤ n ∧ n ≤ 8) :
    tipMask (.single (.int n)) = .ok (some (2 ^ (n - 1))) := by
  have : n = 1 ∨ n = 2 ∨ n = 3 ∨ n = 4 ∨ n = 5 ∨ n = 6 ∨ n = 7 ∨ n = 8 := by omega
  rcases this with rfl | rfl | rfl | rfl | rfl | rfl | rfl | rfl <;> rfl

/-- The corresponding `Tip` member is emitted as its value 2^(n-1). -/
theorem mask_member (n : Nat) (h : 1 ≤ n ∧ n ≤ 8) :
    tipMask (.single (.member ((2 ^ (n - 1) : Nat) : Int))) = .ok (some (2 ^ (n - 1))) := by
  have : n = 1 ∨ n = 2 ∨ n = 3 ∨ n = 4 ∨ n = 5 ∨ n = 6 ∨ n = 7 ∨ n = 8 := by omega
  rcases this with rfl | rfl | rfl | rfl | rfl | rfl | rfl | rfl <;> rfl

/-- `Tip.Any` produces an empty mask field. -/
theorem mask_any : tipMask (.single (.member (-1))) = .ok none := by
  rfl

/-- 0, 9 and all other numbers outside 1..8 are rejected, as are non-integers. -/
theorem mask_rejects_int (n : Int) (h : n < 1 ∨ 8 < n) : tipMask (.single (.int n)) = .error .valueErr := by
  have : intToTip n = .error .valueErr := intToTip_err n (by omega)
  simp only [tipMask, this]
  rfl

theorem mask_rejects_bad : tipMask (.single .bad) = .error .valueErr := by
  rfl

/-- A collection of valid tips is emitted as the bitwise OR of its members. -/
theorem mask_list (l : List TipSym) (vs : List Nat) (h : l.mapM symValue = some vs) :
    tipMask (.many l) = .ok (some (orMask vs)) := by
  obtain ⟨h1, h2⟩ := mapM_ok l vs h
  rw [tipMask_many, h1, ← sumSet_eq_orMask vs h2]
  rfl

/-- The mask of a collection depends only on the set of tips it contains: order, repetition and
    mixing of numbers and `Tip` members are irrelevant. -/
theorem mask_set_ext (l₁ l₂ : List TipSym) (v₁ v₂ : List Nat)
    (h₁ : l₁.mapM symValue = some v₁) (h₂ : l₂.mapM symValue = some v₂)
    (hset : ∀ x, x ∈ v₁ ↔ x ∈ v₂) :
    tipMask (.many l₁) = tipMask (.many l₂) := by
  rw [mask_list l₁ v₁ h₁, mask_list l₂ v₂ h₂, orMask_congr v₁ v₂ hset]

/-- A collection containing an invalid member (0, 9, a non-integer, `Tip.Any`) is rejected.

    STATEMENT CHANGE: the hypothesis `hwf` was added.  Without it the statement is false:
    `l = [.member 3]` has `symValue (.member 3) = none`, but
    `tipMask (.many [.member 3]) = .ok (some 3)` (the model, like the implementation, accepts any
    `Tip` member other than `Tip.Any`; 3 is simply not the value of a `Tip` member, cf. the
    docstring of `TipSym.member`).  `hwf` says that every `.member v` in `l` really is one of the
    nine `Tip` members (`Spec.tipEnum` values). -/
theorem mask_list_rejects (l : List TipSym)
    (hwf : ∀ v, TipSym.member v ∈ l → v ∈ [-1, 1, 2, 4, 8, 16, 32, 64, 128])
    (h : l.mapM symValue = none) :
    tipMask (.many l) = .error .valueErr := by
  rw [tipMask_many, mapM_err l hwf h]
  rfl

/-- The original `mask_list_rejects` (without `hwf`) is false. -/
example : ¬ (∀ l : List TipSym, l.mapM symValue = none → tipMask (.many l) = .error .valueErr) := by
  intro h
  have h3 : tipMask (.many [.member 3]) = .ok (some 3) := rfl
  have := h [.member 3] rfl
  rw [h3] at this
  cases this

/-- EVO script commands: for distinct tips the mask (sum of the values) is their OR. -/
theorem evo_mask_or (tv : List Nat) (hvals : ∀ x ∈ tv, x ∈ [1, 2, 4, 8, 16, 32, 64, 128]) (hnd : tv.Nodup) :
    tv.foldl (· + ·) 0 = orMask tv :=
  sum_eq_orMask tv hvals hnd

/-- EVO script commands: slot `i` (for tip i+1) carries a volume iff tip i+1 is selected, and the
    selected slots receive the given volumes in ascending tip order. -/
theorem slot_i_is_tip_i (tv : List Nat) (vols : List Int) (i : Nat) (hi : i < 8) :
    ((fillSlots tv vols)[i]?.join).isSome → (2 ^ i) ∈ tv := by
  intro h
  obtain ⟨t, ht, hmem⟩ := fillSlots_go_some tv Spec.tipSlots vols i h
  have : i = 0 ∨ i = 1 ∨ i = 2 ∨ i = 3 ∨ i = 4 ∨ i = 5 ∨ i = 6 ∨ i = 7 := by omega
  rcases this with rfl | rfl | rfl | rfl | rfl | rfl | rfl | rfl <;>
    (simp [Spec.tipSlots] at ht; subst ht; exact hmem)

theorem fillSlots_length (tv : List Nat) (vols : List Int) : (fillSlots tv vols).length = 8 :=
  fillSlots_go_length tv Spec.tipSlots vols

/-- The selected slots, read in ascending tip order, carry exactly the given volumes in order. -/
theorem fillSlots_volumes (tv : List Nat) (vols : List Int)
    (hvals : ∀ x ∈ tv, x ∈ [1, 2, 4, 8, 16, 32, 64, 128]) (hnd : tv.Nodup) (hlen : vols.length = tv.length) :
    (fillSlots tv vols).filterMap id = vols := by
  unfold fillSlots
  rw [fillSlots_go_filterMap,
    filter_contains_length tv Spec.tipSlots (by decide) hnd hvals, ← hlen, List.take_length]

example : tipMask (.many [.int 1, .member 4, .int 3, .int 1]) = .ok (some 5) := by rfl
example : tipMask (.many [.int 1, .member (-1)]) = .error .valueErr := by rfl

end Robotools.C10
