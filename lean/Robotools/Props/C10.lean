/-
  C10 — tip selections encode to the Tecan tip bit mask.
-/
import Robotools.Model.Records
import Robotools.Model.EvoCmd
namespace Robotools.C10
open Robotools

/-- The value of a valid tip symbol: tip number n ↦ 2^(n-1), a `Tip` member ↦ its value. -/
def symValue : TipSym → Option Nat
  | .int n => if 1 ≤ n ∧ n ≤ 8 then some (2 ^ (n.toNat - 1)) else none
  | .member v => if v ∈ [1, 2, 4, 8, 16, 32, 64, 128] then some v.toNat else none
  | .bad => none

/-- A tip number n in 1..8 is emitted as the mask 2^(n-1). -/
theorem mask_single (n : Nat) (h : 1 ≤ n ∧ n ≤ 8) :
    tipMask (.single (.int n)) = .ok (some (2 ^ (n - 1))) := by
  sorry

/-- The corresponding `Tip` member is emitted as its value 2^(n-1). -/
theorem mask_member (n : Nat) (h : 1 ≤ n ∧ n ≤ 8) :
    tipMask (.single (.member ((2 ^ (n - 1) : Nat) : Int))) = .ok (some (2 ^ (n - 1))) := by
  sorry

/-- `Tip.Any` produces an empty mask field. -/
theorem mask_any : tipMask (.single (.member (-1))) = .ok none := by
  sorry

/-- 0, 9 and all other numbers outside 1..8 are rejected, as are non-integers. -/
theorem mask_rejects_int (n : Int) (h : n < 1 ∨ 8 < n) : tipMask (.single (.int n)) = .error .valueErr := by
  sorry

theorem mask_rejects_bad : tipMask (.single .bad) = .error .valueErr := by
  sorry

/-- A collection of valid tips is emitted as the bitwise OR of its members. -/
theorem mask_list (l : List TipSym) (vs : List Nat) (h : l.mapM symValue = some vs) :
    tipMask (.many l) = .ok (some (orMask vs)) := by
  sorry

/-- The mask of a collection depends only on the set of tips it contains: order, repetition and
    mixing of numbers and `Tip` members are irrelevant. -/
theorem mask_set_ext (l₁ l₂ : List TipSym) (v₁ v₂ : List Nat)
    (h₁ : l₁.mapM symValue = some v₁) (h₂ : l₂.mapM symValue = some v₂)
    (hset : ∀ x, x ∈ v₁ ↔ x ∈ v₂) :
    tipMask (.many l₁) = tipMask (.many l₂) := by
  sorry

/-- A collection containing an invalid member (0, 9, a non-integer, `Tip.Any`) is rejected. -/
theorem mask_list_rejects (l : List TipSym) (h : l.mapM symValue = none) :
    tipMask (.many l) = .error .valueErr := by
  sorry

/-- EVO script commands: for distinct tips the mask (sum of the values) is their OR. -/
theorem evo_mask_or (tv : List Nat) (hvals : ∀ x ∈ tv, x ∈ [1, 2, 4, 8, 16, 32, 64, 128]) (hnd : tv.Nodup) :
    tv.foldl (· + ·) 0 = orMask tv := by
  sorry

/-- EVO script commands: slot `i` (for tip i+1) carries a volume iff tip i+1 is selected, and the
    selected slots receive the given volumes in ascending tip order. -/
theorem slot_i_is_tip_i (tv : List Nat) (vols : List Int) (i : Nat) (hi : i < 8) :
    ((fillSlots tv vols)[i]?.join).isSome → (2 ^ i) ∈ tv := by
  sorry

theorem fillSlots_length (tv : List Nat) (vols : List Int) : (fillSlots tv vols).length = 8 := by
  sorry

/-- The selected slots, read in ascending tip order, carry exactly the given volumes in order. -/
theorem fillSlots_volumes (tv : List Nat) (vols : List Int)
    (hvals : ∀ x ∈ tv, x ∈ [1, 2, 4, 8, 16, 32, 64, 128]) (hnd : tv.Nodup) (hlen : vols.length = tv.length) :
    (fillSlots tv vols).filterMap id = vols := by
  sorry

example : tipMask (.many [.int 1, .member 4, .int 3, .int 1]) = .ok (some 5) := by decide
example : tipMask (.many [.int 1, .member (-1)]) = .error .valueErr := by decide

end Robotools.C10
