/-
  C17 — saving writes exactly the records, one per line (CRLF), Latin-1, no trailing line break.
  The replacement of earlier file content (`unlink` + `open("w")`) is filesystem behaviour that is
  observed by the harness, not proved (DESIGN §12).
-/
import Robotools.Model.Save
import Robotools.Model.World
namespace Robotools.C17
open Robotools

/-- A record list that can be written and read back line by line: no record contains CR or LF. -/
def RecsWF (recs : List (List Char)) : Prop := ∀ r ∈ recs, '\r' ∉ r ∧ '\n' ∉ r

/-- Reading the file back and splitting at CRLF returns the record list. -/
theorem read_back (recs : List (List Char)) (hne : recs ≠ []) (h : RecsWF recs) :
    splitCRLF (fileChars recs) = recs := by
  sorry

/-- An empty worklist writes an empty file. -/
theorem empty_file : fileChars [] = [] := by
  sorry

/-- No trailing line break: the file ends with the last character of the last record. -/
theorem no_trailing_break (recs : List (List Char)) (last : List Char) (c : Char)
    (h : RecsWF recs) (hl : recs.getLast? = some last) (hc : last.getLast? = some c) :
    (fileChars recs).getLast? = some c := by
  sorry

/-- The records are joined by exactly CRLF: the file is the CRLF-intercalation of the records. -/
theorem file_is_crlf_join (recs : List (List Char)) (h : RecsWF recs) :
    fileChars recs = ['\r', '\n'].intercalate recs := by
  sorry

/-- Latin-1 encoding is defined for characters up to U+00FF and decodes back to the same text. -/
theorem latin1_round_trip (l : List Char) (h : ∀ c ∈ l, c.toNat < 256) :
    ∃ bs, latin1Encode l = some bs ∧ latin1Decode bs = l ∧ bs.length = l.length ∧ ∀ b ∈ bs, b < 256 := by
  sorry

theorem latin1_rejects (l : List Char) (c : Char) (hc : c ∈ l) (h : 256 ≤ c.toNat) : latin1Encode l = none := by
  sorry

/-- File names: exactly the names ending in `.gwl` (any case, with a non-empty stem) are accepted. -/
theorem gwl_suffix_iff (name : List Char) :
    hasGwlSuffix name = true ↔ 4 < name.length ∧ (name.drop (name.length - 4)).map Char.toLower = ['.', 'g', 'w', 'l'] := by
  sorry

/-- Records produced by the worklist model never contain line breaks when the text arguments do not:
    comment records are split at line feeds and stripped (CR is stripped as white space only at the
    ends, hence the hypothesis on CR). -/
theorem comment_recs_wf (s : String) (rs : List Rec) (hcr : '\r' ∉ s.toList) (h : commentRecs (some s) = .ok rs) :
    RecsWF (rs.map Rec.renderChars) := by
  sorry

example : splitCRLF (fileChars ["A;x".toList, "W1;".toList]) = ["A;x".toList, "W1;".toList] := by decide
example : fileBytes ["C;µ".toList] = some [67, 59, 181] := by decide

end Robotools.C17
