/-
  C17 — saving writes exactly the records, one per line (CRLF), Latin-1, no trailing line break.
  The replacement of earlier file content (`unlink` + `open("w")`) is filesystem behaviour that is
  observed by the harness, not proved (DESIGN §12).
-/
import Robotools.Model.Save
import Robotools.Model.World
import Robotools.Proofs.SaveLemmas
namespace Robotools.C17
open Robotools

/-- A record list that can be written and read back line by line: no record contains CR or LF. -/
def RecsWF (recs : List (List Char)) : Prop := ∀ r ∈ recs, '\r' ∉ r ∧ '\n' ∉ r

/-- Reading the file back and splitting at CRLF returns the record list. -/
theorem read_back (recs : List (List Char)) (hne : recs ≠ []) (h : RecsWF recs) :
    splitCRLF (fileChars recs) = recs := by
  induction recs with
  | nil => exact absurd rfl hne
  | cons r rest ih =>
    have hr := h r (by simp)
    cases rest with
    | nil => rw [fileChars_singleton r hr.2, splitCRLF_of_not_mem r hr.1]
    | cons r' rest' =>
      have hwf : RecsWF (r' :: rest') := fun x hx => h x (List.mem_cons_of_mem _ hx)
      rw [fileChars_cons_cons r r' rest' hr.2, splitCRLF_append_crlf r _ hr.1,
        ih (by simp) hwf]

/-- An empty worklist writes an empty file. -/
theorem empty_file : fileChars [] = [] := by
  rfl

/-- No trailing line break: the file ends with the last character of the last record. -/
theorem no_trailing_break (recs : List (List Char)) (last : List Char) (c : Char)
    (h : RecsWF recs) (hl : recs.getLast? = some last) (hc : last.getLast? = some c) :
    (fileChars recs).getLast? = some c := by
  induction recs with
  | nil => simp at hl
  | cons r rest ih =>
    have hr := h r (by simp)
    cases rest with
    | nil =>
      simp at hl
      subst hl
      rw [fileChars_singleton r hr.2]; exact hc
    | cons r' rest' =>
      have hwf : RecsWF (r' :: rest') := fun x hx => h x (List.mem_cons_of_mem _ hx)
      have hl' : (r' :: rest').getLast? = some last := by
        rw [List.getLast?_cons_cons] at hl; exact hl
      have := ih hwf hl'
      rw [fileChars_cons_cons r r' rest' hr.2, List.getLast?_append]
      cases hf : fileChars (r' :: rest') with
      | nil => rw [hf] at this; simp at this
      | cons a t =>
        rw [hf] at this
        simp only [List.getLast?_cons_cons]
        rw [this]; rfl

/-- The records are joined by exactly CRLF: the file is the CRLF-intercalation of the records. -/
theorem file_is_crlf_join (recs : List (List Char)) (h : RecsWF recs) :
    fileChars recs = ['\r', '\n'].intercalate recs := by
  induction recs with
  | nil => rfl
  | cons r rest ih =>
    have hr := h r (by simp)
    cases rest with
    | nil => rw [fileChars_singleton r hr.2, List.intercalate_singleton]
    | cons r' rest' =>
      have hwf : RecsWF (r' :: rest') := fun x hx => h x (List.mem_cons_of_mem _ hx)
      rw [fileChars_cons_cons r r' rest' hr.2, intercalate_crlf_cons_cons, ih hwf]

/-- Latin-1 encoding is defined for characters up to U+00FF and decodes back to the same text. -/
theorem latin1_round_trip (l : List Char) (h : ∀ c ∈ l, c.toNat < 256) :
    ∃ bs, latin1Encode l = some bs ∧ latin1Decode bs = l ∧ bs.length = l.length ∧ ∀ b ∈ bs, b < 256 := by
  induction l with
  | nil => exact ⟨[], rfl, rfl, rfl, by simp⟩
  | cons c t ih =>
    obtain ⟨bs, h1, h2, h3, h4⟩ := ih (fun x hx => h x (List.mem_cons_of_mem _ hx))
    have hc : c.toNat < 256 := h c (by simp)
    refine ⟨c.toNat :: bs, ?_, ?_, ?_, ?_⟩
    · rw [latin1Encode_cons, h1]; simp [hc]
    · simp only [latin1Decode, List.map_cons] at h2 ⊢
      rw [h2, Char.ofNat_toNat]
    · simp [h3]
    · intro b hb
      rcases List.mem_cons.1 hb with rfl | hb
      · exact hc
      · exact h4 b hb

theorem latin1_rejects (l : List Char) (c : Char) (hc : c ∈ l) (h : 256 ≤ c.toNat) : latin1Encode l = none := by
  induction l with
  | nil => simp at hc
  | cons a t ih =>
    rw [latin1Encode_cons]
    rcases List.mem_cons.1 hc with rfl | hc
    · have : ¬ c.toNat < 256 := by omega
      simp [this]
    · rw [ih hc]
      split <;> simp

/-- File names: exactly the names ending in `.gwl` (any case, with a non-empty stem) are accepted. -/
theorem gwl_suffix_iff (name : List Char) :
    hasGwlSuffix name = true ↔ 4 < name.length ∧ (name.drop (name.length - 4)).map Char.toLower = ['.', 'g', 'w', 'l'] := by
  simp [hasGwlSuffix, List.map_drop]

/-- Records produced by the worklist model never contain line breaks when the text arguments do not:
    comment records are split at line feeds and stripped (CR is stripped as white space only at the
    ends, hence the hypothesis on CR). -/
theorem comment_recs_wf (s : String) (rs : List Rec) (hcr : '\r' ∉ s.toList) (h : commentRecs (some s) = .ok rs) :
    RecsWF (rs.map Rec.renderChars) := by
  simp only [commentRecs] at h
  split at h
  · cases h; intro r hr; simp at hr
  · split at h
    · cases h
    · cases h
      intro r hr
      simp only [List.mem_map, List.mem_filterMap] at hr
      obtain ⟨rc, ⟨l, hl, hrc⟩, rfl⟩ := hr
      split at hrc
      · cases hrc
      · cases hrc
        have key : ∀ c ∈ stripChars l, c ∈ s.toList ∧ c ≠ '\n' := fun c hc =>
          mem_splitOn_piece '\n' s.toList l hl c (mem_of_mem_stripChars l c hc)
        simp only [Rec.renderChars, String.toList_ofList]
        constructor
        · intro hm
          simp at hm
          exact hcr (key _ hm).1
        · intro hm
          simp at hm
          exact (key _ hm).2 rfl

example : splitCRLF (fileChars ["A;x".toList, "W1;".toList]) = ["A;x".toList, "W1;".toList] := by decide
example : fileBytes ["C;µ".toList] = some [67, 59, 181] := by decide

end Robotools.C17
