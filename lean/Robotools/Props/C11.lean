/-
  C11 — the labware history is append-only, condensed per operation, and truthful.

  `report`'s array formatting (numpy's printer) is a parameter: `report_order` is stated for an
  arbitrary formatter (DESIGN §12).  Labels "first"/"last" are keywords of `condense_log`
  (known finding F7c); the transfer theorems carry the hypothesis that the label is not one of them.
-/
import Robotools.Props.C04
import Robotools.Proofs.HistLemmas
import Robotools.Props.C06
import Robotools.Props.C18
namespace Robotools.C11
open Robotools

/-- History of labware `l`. -/
def whist (w : World) (l : Nat) : List (Option String × List Rat) :=
  match w.labs[l]? with
  | some L => L.hist
  | none => []

/-- Current volumes of labware `l`. -/
def wvols (w : World) (l : Nat) : List Rat :=
  match w.labs[l]? with
  | some L => L.vols
  | none => []

/-- The newest history entry equals the current volumes. -/
def Fresh (w : World) (l : Nat) : Prop := (whist w l).getLast?.map (·.2) = some (wvols w l)

def isCondense : Micro → Bool
  | .condense _ _ _ => true
  | _ => false

def logsOn (l : Nat) (ms : List Micro) : Nat :=
  (ms.filter fun m => match m with | .log l' _ => l' = l | _ => false).length

/-! ### Helper lemmas (micro level) -/

private theorem whist_setLab (w : World) (l0 l : Nat) (L L' : Labware) (hL : w.labs[l0]? = some L) :
    whist (w.setLab l0 L') l = if l0 = l then L'.hist else whist w l := by
  have hlt : l0 < w.labs.length := (List.getElem?_eq_some_iff.1 hL).1
  unfold whist World.setLab
  simp only [List.getElem?_set]
  by_cases heq : l0 = l
  · subst heq
    simp only [if_pos hlt, if_true]
  · simp only [if_neg heq]

private theorem wvols_setLab (w : World) (l0 l : Nat) (L L' : Labware) (hL : w.labs[l0]? = some L) :
    wvols (w.setLab l0 L') l = if l0 = l then L'.vols else wvols w l := by
  have hlt : l0 < w.labs.length := (List.getElem?_eq_some_iff.1 hL).1
  unfold wvols World.setLab
  simp only [List.getElem?_set]
  by_cases heq : l0 = l
  · subst heq
    simp only [if_pos hlt, if_true]
  · simp only [if_neg heq]

private theorem whist_of_some {w : World} {l : Nat} {L : Labware} (h : w.labs[l]? = some L) :
    whist w l = L.hist := by unfold whist; rw [h]

private theorem wvols_of_some {w : World} {l : Nat} {L : Labware} (h : w.labs[l]? = some L) :
    wvols w l = L.vols := by unfold wvols; rw [h]

private theorem whist_of_labs {w w' : World} (h : w'.labs = w.labs) (l : Nat) :
    whist w' l = whist w l := by unfold whist; rw [h]

private theorem wvols_of_labs {w w' : World} (h : w'.labs = w.labs) (l : Nat) :
    wvols w' l = wvols w l := by unfold wvols; rw [h]

/-- The history never changes under `rm`/`ad`; the volumes of other labware neither. -/
private theorem micro_rm (w w' : World) (l0 i : Nat) (v : Rat) (l : Nat)
    (h : w.micro (.rm l0 i v) = .ok w') :
    whist w' l = whist w l ∧ (l0 ≠ l → wvols w' l = wvols w l) := by
  simp only [World.micro] at h
  split at h
  · cases h
  · rename_i L hL
    split at h
    · rename_i L' hL'
      cases h
      have hf := Labware.removeStep_fields hL'
      rw [whist_setLab w l0 l L L' hL, wvols_setLab w l0 l L L' hL]
      refine ⟨?_, fun hne => by rw [if_neg hne]⟩
      split
      · rename_i heq; subst heq; rw [whist_of_some hL]; exact hf.2.2.2.2.2.2.1
      · rfl
    · cases h

private theorem micro_ad (w w' : World) (l0 i : Nat) (v : Rat) (c : CompSrc) (l : Nat)
    (h : w.micro (.ad l0 i v c) = .ok w') :
    whist w' l = whist w l ∧ (l0 ≠ l → wvols w' l = wvols w l) := by
  simp only [World.micro] at h
  split at h
  · cases h
  · rename_i L hL
    split at h
    · rename_i L' hL'
      cases h
      have hf := Labware.addStep_fields hL'
      rw [whist_setLab w l0 l L L' hL, wvols_setLab w l0 l L L' hL]
      refine ⟨?_, fun hne => by rw [if_neg hne]⟩
      split
      · rename_i heq; subst heq; rw [whist_of_some hL]; exact hf.2.2.2.2.2.2
      · rfl
    · cases h

private theorem micro_quiet_labs (w w' : World) (m : Micro) (hq : quiet m = true)
    (h : w.micro m = .ok w') : w'.labs = w.labs := by
  cases m with
  | loadComp l0 i0 =>
    simp only [World.micro] at h
    split at h
    · cases h
    · cases h; rfl
  | emit r => simp only [World.micro] at h; cases h; rfl
  | setDiti k =>
    simp only [World.micro] at h
    split at h <;> split at h <;> first | (cases h; rfl) | cases h
  | fail e => simp only [World.micro] at h; cases h
  | _ => cases hq

private theorem micro_condense (w w' : World) (l0 n : Nat) (label : Option String) (l : Nat)
    (h : w.micro (.condense l0 n label) = .ok w') :
    wvols w' l = wvols w l ∧ (l0 ≠ l → whist w' l = whist w l)
    ∧ (l0 = l → ∃ L L' : Labware, L.condenseLog n label = .ok L' ∧ whist w l = L.hist ∧ whist w' l = L'.hist) := by
  simp only [World.micro] at h
  split at h
  · cases h
  · rename_i L hL
    split at h
    · rename_i L' hL'
      cases h
      rw [whist_setLab w l0 l L L' hL, wvols_setLab w l0 l L L' hL]
      refine ⟨?_, fun hne => by rw [if_neg hne], fun heq => ?_⟩
      · split
        · rename_i heq; subst heq; rw [wvols_of_some hL]; exact (Labware.condenseLog_fields hL').1
        · rfl
      · subst heq
        exact ⟨L, L', hL', whist_of_some hL, if_pos rfl⟩
    · cases h

/-! ### Micro level: only `log` and `condense` touch the history; snapshots are values -/

theorem micro_hist_other (w w' : World) (m : Micro) (l : Nat) (h : w.micro m = .ok w')
    (hm : ∀ l' x, m ≠ .log l' x) (hc : isCondense m = false) : whist w' l = whist w l := by
  cases m with
  | rm l0 i v => exact (micro_rm w w' l0 i v l h).1
  | ad l0 i v c => exact (micro_ad w w' l0 i v c l h).1
  | log l0 x => exact absurd rfl (hm l0 x)
  | condense l0 n x => cases hc
  | loadComp l0 i => exact whist_of_labs (micro_quiet_labs w w' _ rfl h) l
  | emit r => exact whist_of_labs (micro_quiet_labs w w' _ rfl h) l
  | setDiti k => exact whist_of_labs (micro_quiet_labs w w' _ rfl h) l
  | fail e => exact whist_of_labs (micro_quiet_labs w w' _ rfl h) l

theorem micro_hist_log (w w' : World) (l l' : Nat) (label : Option String) (h : w.micro (.log l' label) = .ok w') :
    whist w' l = (if l' = l then whist w l ++ [(label, wvols w l)] else whist w l) ∧ wvols w' l = wvols w l := by
  simp only [World.micro] at h
  split at h
  · cases h
  · rename_i L hL
    cases h
    rw [whist_setLab w l' l L _ hL, wvols_setLab w l' l L _ hL]
    by_cases heq : l' = l
    · subst heq
      simp only [if_true]
      rw [whist_of_some hL, wvols_of_some hL]
      exact ⟨rfl, rfl⟩
    · simp only [if_neg heq]
      exact ⟨trivial, trivial⟩

/-! ### Helper lemmas (lists of micro-operations) -/

private theorem logsOn_append (l : Nat) (a b : List Micro) :
    logsOn l (a ++ b) = logsOn l a + logsOn l b := by
  simp only [logsOn, List.filter_append, List.length_append]

private theorem logsOn_cons (l : Nat) (m : Micro) (ms : List Micro) :
    logsOn l (m :: ms) = logsOn l [m] + logsOn l ms := logsOn_append l [m] ms

private theorem micro_hist_grow (w w' : World) (m : Micro) (l : Nat) (h : w.micro m = .ok w')
    (hc : isCondense m = false) :
    ∃ e0, whist w' l = whist w l ++ e0 ∧ e0.length = logsOn l [m] := by
  by_cases hlog : ∃ l' x, m = .log l' x
  · obtain ⟨l', x, rfl⟩ := hlog
    have := (micro_hist_log w w' l l' x h).1
    by_cases heq : l' = l
    · rw [if_pos heq] at this
      exact ⟨_, this, by simp [logsOn, heq]⟩
    · rw [if_neg heq] at this
      exact ⟨[], by rw [this, List.append_nil], by simp [logsOn, heq]⟩
  · have := micro_hist_other w w' m l h (fun l' x e => hlog ⟨l', x, e⟩) hc
    refine ⟨[], by rw [this, List.append_nil], ?_⟩
    cases m <;> first | rfl | exact absurd ⟨_, _, rfl⟩ hlog

private theorem exec_append_ok {w w' : World} {a b : List Micro}
    (h : w.exec (a ++ b) = (w', none)) :
    ∃ w1, w.exec a = (w1, none) ∧ w1.exec b = (w', none) := by
  rw [World.exec_append] at h
  rcases hx : w.exec a with ⟨w1, _ | e⟩
  · rw [hx] at h; exact ⟨w1, rfl, h⟩
  · rw [hx] at h; cases h

private theorem exec_singleton_ok {w w' : World} {m : Micro} (h : w.exec [m] = (w', none)) :
    w.micro m = .ok w' := by
  cases hm : w.micro m with
  | ok w1 => rw [World.exec_cons_ok _ hm] at h; cases h; rfl
  | error e => rw [World.exec_cons_error _ hm] at h; cases h

private theorem exec_noFail {w w' : World} {ms : List Micro} (h : w.exec ms = (w', none)) :
    ∀ m ∈ ms, isFail m = false := by
  induction ms generalizing w with
  | nil => intro m hm; cases hm
  | cons m0 ms ih =>
    cases hm : w.micro m0 with
    | ok w1 =>
      rw [World.exec_cons_ok _ hm] at h
      intro m hmem
      rcases List.mem_cons.1 hmem with rfl | hmem
      · cases m <;> first | rfl | (simp only [World.micro] at hm; cases hm)
      · exact ih h m hmem
    | error e => rw [World.exec_cons_error _ hm] at h; cases h

private theorem exec_fail_not_ok (w w' : World) (e : Err) : w.exec [.fail e] ≠ (w', none) := by
  intro h
  have := exec_noFail h (.fail e) List.mem_cons_self
  cases this

/-- Record-only micro-operations keep the labware, also when execution stops early. -/
private theorem exec_quiet_labs (w : World) (Q : List Micro) (hQ : ∀ m ∈ Q, quiet m = true) :
    (w.exec Q).1.labs = w.labs :=
  World.exec_invariant (P := fun w' => w'.labs = w.labs) (Q := fun m => quiet m = true)
    (fun w1 w2 m hq hP hm => by rw [micro_quiet_labs w1 w2 m hq hm]; exact hP) w Q hQ rfl

private theorem stepOn_not_log {l : Nat} {m : Micro} (h : stepOn l m = true) :
    (∀ l' x, m ≠ .log l' x) ∧ isCondense m = false := by
  cases m with
  | rm _ _ _ => exact ⟨fun _ _ e => Micro.noConfusion e, rfl⟩
  | ad _ _ _ _ => exact ⟨fun _ _ e => Micro.noConfusion e, rfl⟩
  | fail _ => exact ⟨fun _ _ e => Micro.noConfusion e, rfl⟩
  | _ => cases h

private theorem exec_steps_hist (w : World) (l : Nat) (steps : List Micro)
    (hs : ∀ m ∈ steps, stepOn l m = true) (l' : Nat) :
    whist (w.exec steps).1 l' = whist w l' :=
  World.exec_invariant (P := fun w' => whist w' l' = whist w l') (Q := fun m => stepOn l m = true)
    (fun w1 w2 m hq hP hm => by
      rw [micro_hist_other w1 w2 m l' hm (stepOn_not_log hq).1 (stepOn_not_log hq).2]; exact hP)
    w steps hs rfl

/-- One call = steps on `l`, one `log l label`, record emission: exactly one new entry on `l`,
    carrying the final volumes. -/
private theorem one_entry (w w' : World) (l : Nat) (label : Option String) (A Q : List Micro)
    (hA : OneLog l label A) (hQ : ∀ m ∈ Q, quiet m = true) (h : w.exec (A ++ Q) = (w', none)) :
    whist w' l = whist w l ++ [(label, wvols w' l)] ∧ ∀ l', l' ≠ l → whist w' l' = whist w l' := by
  obtain ⟨w2, hA2, hQ2⟩ := exec_append_ok h
  rcases hA with rfl | ⟨steps, hs, rfl⟩
  · exact absurd hA2 (exec_fail_not_ok _ _ _)
  · obtain ⟨w1, h1, hlog⟩ := exec_append_ok hA2
    have hlog := exec_singleton_ok hlog
    have hlabs : w'.labs = w2.labs := by
      have := exec_quiet_labs w2 Q hQ
      rw [hQ2] at this; exact this
    have hw1 : ∀ l', whist w1 l' = whist w l' := fun l' => by
      have := exec_steps_hist w l steps hs l'
      rw [h1] at this; exact this
    have hl := micro_hist_log w1 w2 l l label hlog
    rw [if_pos rfl] at hl
    refine ⟨?_, fun l' hne => ?_⟩
    · rw [whist_of_labs hlabs, wvols_of_labs hlabs, hl.1, hl.2, hw1]
    · have := (micro_hist_log w1 w2 l' l label hlog).1
      rw [if_neg (fun e => hne e.symm)] at this
      rw [whist_of_labs hlabs, this, hw1]

private theorem exec_reject_not_ok (w w' : World) : w.exec [.fail .reject] ≠ (w', none) :=
  exec_fail_not_ok w w' _

/-- Without condensation the history only grows: earlier entries are never altered or dropped, and
    it grows by exactly one entry per `log`. -/
theorem exec_hist_append (w : World) (ms : List Micro) (l : Nat) (hc : ∀ m ∈ ms, isCondense m = false) :
    ∃ ext, whist (w.exec ms).1 l = whist w l ++ ext ∧ ext.length = logsOn l (C04.executed w ms) := by
  induction ms generalizing w with
  | nil => exact ⟨[], by simp only [World.exec_nil, List.append_nil], rfl⟩
  | cons m ms ih =>
    cases hm : w.micro m with
    | ok w1 =>
      obtain ⟨e0, he0, hl0⟩ := micro_hist_grow w w1 m l hm (hc m List.mem_cons_self)
      obtain ⟨e1, he1, hl1⟩ := ih w1 (fun m' h' => hc m' (List.mem_cons_of_mem _ h'))
      refine ⟨e0 ++ e1, ?_, ?_⟩
      · rw [World.exec_cons_ok _ hm, he1, he0, List.append_assoc]
      · have hex : C04.executed w (m :: ms) = m :: C04.executed w1 ms := by
          simp only [C04.executed, hm]
        rw [hex, logsOn_cons, List.length_append, hl0, hl1]
    | error e =>
      refine ⟨[], ?_, ?_⟩
      · rw [World.exec_cons_error _ hm, List.append_nil]
      · have hex : C04.executed w (m :: ms) = [] := by simp only [C04.executed, hm]
        rw [hex]; rfl

/-- `condense_log n` with an ordinary label keeps everything but the last `n` entries and appends
    one entry carrying the newest snapshot. -/
theorem condense_spec (L L' : Labware) (n : Nat) (label : Option String)
    (hl : label ≠ some "first" ∧ label ≠ some "last") (h : L.condenseLog n label = .ok L') :
    L'.hist = L.hist.take (L.hist.length - n) ++ [(label, ((L.hist.getLast?.getD (none, [])).2))]
    ∧ L'.vols = L.vols := by
  unfold Labware.condenseLog at h
  simp only [if_neg hl.1, if_neg hl.2] at h
  cases h
  exact ⟨rfl, rfl⟩

/-! ### Direct calls and single worklist operations: one entry per call -/

theorem add_one_entry (w w' : World) (l : Nat) (wells : Arr String) (vols : Arr Rat) (label : Option String)
    (comps : Option (List (Option Comp))) (h : w.step (.add l wells vols label comps) = (w', none)) :
    whist w' l = whist w l ++ [(label, wvols w' l)] ∧ ∀ l', l' ≠ l → whist w' l' = whist w l' := by
  unfold World.step compile at h
  simp only at h
  cases hL : w.labs[l]? with
  | none => rw [hL] at h; exact absurd h (exec_reject_not_ok _ _)
  | some L =>
    rw [hL] at h
    simp only at h
    rw [← List.append_nil (compileAdd L l wells vols label comps)] at h
    exact one_entry w w' l label _ [] (compileAdd_oneLog _ _ _ _ _ _ _) (fun _ hm => by cases hm) h

theorem remove_one_entry (w w' : World) (l : Nat) (wells : Arr String) (vols : Arr Rat) (label : Option String)
    (h : w.step (.remove l wells vols label) = (w', none)) :
    whist w' l = whist w l ++ [(label, wvols w' l)] ∧ ∀ l', l' ≠ l → whist w' l' = whist w l' := by
  unfold World.step compile at h
  simp only at h
  cases hL : w.labs[l]? with
  | none => rw [hL] at h; exact absurd h (exec_reject_not_ok _ _)
  | some L =>
    rw [hL] at h
    simp only at h
    rw [← List.append_nil (compileRemove L l wells vols label)] at h
    exact one_entry w w' l label _ [] (compileRemove_oneLog _ _ _ _ _) (fun _ hm => by cases hm) h

theorem aspirate_one_entry (w w' : World) (l : Nat) (wells : Arr String) (vols : Arr Rat) (label : Option String) (kw : KW)
    (h : w.step (.aspirate l wells vols label kw) = (w', none)) :
    whist w' l = whist w l ++ [(label, wvols w' l)] ∧ ∀ l', l' ≠ l → whist w' l' = whist w l' := by
  unfold World.step compile at h
  simp only at h
  cases hL : w.labs[l]? with
  | none => rw [hL] at h; exact absurd h (exec_reject_not_ok _ _)
  | some L =>
    rw [hL] at h
    simp only at h
    obtain ⟨A, Q, hAQ, hA, hQ⟩ := compileAspirate_shape w.cfg L l wells vols label kw
    rw [hAQ] at h
    exact one_entry w w' l label A Q hA hQ h

theorem dispense_one_entry (w w' : World) (l : Nat) (wells : Arr String) (vols : Arr Rat) (label : Option String)
    (comps : Option (List (Option Comp))) (kw : KW)
    (h : w.step (.dispense l wells vols label comps kw) = (w', none)) :
    whist w' l = whist w l ++ [(label, wvols w' l)] ∧ ∀ l', l' ≠ l → whist w' l' = whist w l' := by
  unfold World.step compile at h
  simp only at h
  cases hL : w.labs[l]? with
  | none => rw [hL] at h; exact absurd h (exec_reject_not_ok _ _)
  | some L =>
    rw [hL] at h
    simp only at h
    obtain ⟨A, Q, hAQ, hA, hQ⟩ := compileDispense_shape w.cfg L l wells vols label comps kw false
    rw [hAQ] at h
    exact one_entry w w' l label A Q hA hQ h

/-- Operations that only emit records leave every history untouched. -/
theorem record_ops_no_entry (w w' : World) (op : Op) (e : Option Err)
    (hop : op = .comment none ∨ (∃ s, op = .comment (some s)) ∨ (∃ n, op = .wash n) ∨ op = .decontaminate ∨ op = .flush
           ∨ op = .commit ∨ (∃ i, op = .setDiti i) ∨ (∃ a, op = .aspirateWell a) ∨ (∃ a, op = .dispenseWell a)
           ∨ (∃ a, op = .reagentDistribution a))
    (h : w.step op = (w', e)) : ∀ l, whist w' l = whist w l := by
  have hq : ∀ m ∈ compile w op, quiet m = true := by
    have single : ∀ m0 : Micro, quiet m0 = true → ∀ m ∈ [m0], quiet m = true := by
      intro m0 h0 m hm
      simp only [List.mem_singleton] at hm
      subst hm; exact h0
    rcases hop with rfl | ⟨s, rfl⟩ | ⟨n, rfl⟩ | rfl | rfl | rfl | ⟨i, rfl⟩ | ⟨a, rfl⟩ | ⟨a, rfl⟩ | ⟨a, rfl⟩
    · exact quiet_commentMicros _
    · exact quiet_commentMicros _
    · exact quiet_washMicros _ _
    · show ∀ m ∈ (if w.cfg.ditiMode then [Micro.fail .invalidOp] else [.emit .decon]), quiet m = true
      split <;> exact single _ rfl
    · exact single _ rfl
    · exact single _ rfl
    · exact single _ rfl
    · exact quiet_exceptMicros _ _ (fun f => single _ rfl)
    · exact quiet_exceptMicros _ _ (fun f => single _ rfl)
    · exact quiet_compileRD _ _
  intro l
  have := exec_quiet_labs w (compile w op) hq
  unfold World.step at h
  rw [h] at this
  exact whist_of_labs this l

/-! ### Helper lemmas (transfers) -/

private theorem logsOn_eq_zero (l : Nat) (ms : List Micro) (h : ∀ m ∈ ms, ∀ x, m ≠ .log l x) :
    logsOn l ms = 0 := by
  unfold logsOn
  rw [List.length_eq_zero_iff, List.filter_eq_nil_iff]
  intro m hm
  cases m with
  | log l' x =>
    simp only [decide_eq_true_eq]
    intro e
    subst e
    exact h _ hm x rfl
  | _ => simp

private theorem logsOn_quiet (l : Nat) (Q : List Micro) (hQ : ∀ m ∈ Q, quiet m = true) :
    logsOn l Q = 0 := by
  apply logsOn_eq_zero
  intro m hm x e
  subst e
  exact Bool.noConfusion (hQ _ hm)

private theorem logsOn_oneLog (l l' : Nat) (label : Option String) (A : List Micro)
    (hA : OneLog l' label A) (hnf : ∀ m ∈ A, isFail m = false) :
    logsOn l A = if l' = l then 1 else 0 := by
  rcases hA with rfl | ⟨steps, hs, rfl⟩
  · exact Bool.noConfusion (hnf _ List.mem_cons_self)
  · rw [logsOn_append, logsOn_eq_zero l steps (fun m hm x e => (stepOn_not_log (hs m hm)).1 l x e),
      Nat.zero_add]
    by_cases heq : l' = l <;> simp [logsOn, heq]

private theorem noCondense_quiet (Q : List Micro) (hQ : ∀ m ∈ Q, quiet m = true) :
    ∀ m ∈ Q, isCondense m = false := by
  intro m hm
  have := hQ m hm
  cases m <;> first | rfl | cases this

private theorem noCondense_oneLog (l : Nat) (label : Option String) (A : List Micro)
    (hA : OneLog l label A) : ∀ m ∈ A, isCondense m = false := by
  rcases hA with rfl | ⟨steps, hs, rfl⟩
  · intro m hm; simp only [List.mem_singleton] at hm; subst hm; rfl
  · intro m hm
    rcases List.mem_append.1 hm with h | h
    · exact (stepOn_not_log (hs m h)).2
    · simp only [List.mem_singleton] at h; subst h; rfl

private theorem block_noCondense (cfg : Cfg) (S : Labware) (src : Nat) (D : Labware) (dst : Nat)
    (wash : WashArg) (kw : KW) (st : PlanStep) :
    ∀ m ∈ transferBlock cfg S src D dst wash kw st, isCondense m = false := by
  by_cases hst : ∃ s d v, st = .pair s d v
  · obtain ⟨s, d, v, rfl⟩ := hst
    obtain ⟨A, Q1, B, Q2, h, hA, hB, hQ1, hQ2⟩ :=
      transferBlock_pair_shape cfg S src D dst wash kw s d v
    rw [h]
    intro m hm
    simp only [List.mem_append] at hm
    rcases hm with ((hm | hm) | hm) | hm
    · exact noCondense_oneLog _ _ _ hA m hm
    · exact noCondense_quiet _ hQ1 m hm
    · exact noCondense_oneLog _ _ _ hB m hm
    · exact noCondense_quiet _ hQ2 m hm
  · exact noCondense_quiet _ (transferBlock_other_quiet cfg S src D dst wash kw st
      (fun s d v h => hst ⟨s, d, v, h⟩))

private theorem block_logs_pair (cfg : Cfg) (S : Labware) (src : Nat) (D : Labware) (dst : Nat)
    (wash : WashArg) (kw : KW) (s d : String) (v : Rat) (l : Nat)
    (hnf : ∀ m ∈ transferBlock cfg S src D dst wash kw (.pair s d v), isFail m = false) :
    logsOn l (transferBlock cfg S src D dst wash kw (.pair s d v))
      = (if src = l then 1 else 0) + (if dst = l then 1 else 0) := by
  obtain ⟨A, Q1, B, Q2, h, hA, hB, hQ1, hQ2⟩ :=
    transferBlock_pair_shape cfg S src D dst wash kw s d v
  rw [h] at hnf ⊢
  simp only [List.mem_append] at hnf
  rw [logsOn_append, logsOn_append, logsOn_append, logsOn_quiet l Q1 hQ1, logsOn_quiet l Q2 hQ2,
    logsOn_oneLog l src none A hA (fun m hm => hnf m (Or.inl (Or.inl (Or.inl hm)))),
    logsOn_oneLog l dst none B hB (fun m hm => hnf m (Or.inl (Or.inr hm)))]
  simp only [Nat.add_zero]

private theorem countPairs_cons (st : PlanStep) (plan : List PlanStep) :
    countPairs (st :: plan)
      = (match st with | .pair _ _ _ => 1 | _ => 0) + countPairs plan := by
  unfold countPairs
  rw [List.filter_cons]
  cases st <;> simp only [if_true, List.length_cons, Bool.false_eq_true, if_false] <;> omega

private theorem plan_logs (cfg : Cfg) (S : Labware) (src : Nat) (D : Labware) (dst : Nat)
    (wash : WashArg) (kw : KW) (plan : List PlanStep) (l : Nat)
    (hnf : ∀ m ∈ plan.flatMap (transferBlock cfg S src D dst wash kw), isFail m = false) :
    logsOn l (plan.flatMap (transferBlock cfg S src D dst wash kw))
      = countPairs plan * ((if src = l then 1 else 0) + (if dst = l then 1 else 0)) := by
  induction plan with
  | nil => simp [logsOn, countPairs]
  | cons st plan ih =>
    rw [List.flatMap_cons] at hnf ⊢
    have h1 : ∀ m ∈ transferBlock cfg S src D dst wash kw st, isFail m = false :=
      fun m hm => hnf m (List.mem_append_left _ hm)
    have h2 := ih (fun m hm => hnf m (List.mem_append_right _ hm))
    rw [logsOn_append, h2, countPairs_cons, Nat.add_mul]
    congr 1
    cases st with
    | pair s d v => rw [block_logs_pair cfg S src D dst wash kw s d v l h1]; simp only [Nat.one_mul]
    | action =>
      rw [logsOn_quiet l _ (transferBlock_other_quiet cfg S src D dst wash kw .action
        (fun _ _ _ e => PlanStep.noConfusion e))]
      simp only [Nat.zero_mul]
    | brk =>
      rw [logsOn_quiet l _ (transferBlock_other_quiet cfg S src D dst wash kw .brk
        (fun _ _ _ e => PlanStep.noConfusion e))]
      simp only [Nat.zero_mul]

private theorem plan_noCondense (cfg : Cfg) (S : Labware) (src : Nat) (D : Labware) (dst : Nat)
    (wash : WashArg) (kw : KW) (plan : List PlanStep) :
    ∀ m ∈ plan.flatMap (transferBlock cfg S src D dst wash kw), isCondense m = false := by
  intro m hm
  obtain ⟨st, _, hm⟩ := List.mem_flatMap.1 hm
  exact block_noCondense cfg S src D dst wash kw st m hm

private theorem fresh_congr {w w' : World} {l : Nat} (h1 : whist w' l = whist w l)
    (h2 : wvols w' l = wvols w l) (hf : Fresh w l) : Fresh w' l := by
  unfold Fresh at hf ⊢
  rw [h1, h2]; exact hf

private theorem fresh_last {w : World} {l : Nat} (hf : Fresh w l) :
    ((whist w l).getLast?.getD (none, [])).2 = wvols w l := by
  unfold Fresh at hf
  cases hg : (whist w l).getLast? with
  | none => rw [hg] at hf; cases hf
  | some e =>
    rw [hg] at hf
    simp only [Option.map_some, Option.some.injEq] at hf
    simpa using hf

private theorem condense_last (L L' : Labware) (n : Nat) (label : Option String)
    (h : L.condenseLog n label = .ok L') :
    L'.hist.getLast?.map (·.2) = some ((L.hist.getLast?.getD (none, [])).2) := by
  unfold Labware.condenseLog at h
  simp only at h
  split at h
  · cases h
  · cases h
    simp only [List.getLast?_concat, Option.map_some]

private theorem micro_fresh (w w' : World) (m : Micro) (l : Nat) (b : Bool)
    (h : w.micro m = .ok w') (hb : b = true → Fresh w l) (hc : cleanStep l b m = true) :
    Fresh w' l := by
  cases m with
  | rm l0 i v =>
    simp only [cleanStep] at hc
    by_cases heq : l0 = l
    · rw [if_pos heq] at hc; cases hc
    · rw [if_neg heq] at hc
      have := micro_rm w w' l0 i v l h
      exact fresh_congr this.1 (this.2 heq) (hb hc)
  | ad l0 i v c =>
    simp only [cleanStep] at hc
    by_cases heq : l0 = l
    · rw [if_pos heq] at hc; cases hc
    · rw [if_neg heq] at hc
      have := micro_ad w w' l0 i v c l h
      exact fresh_congr this.1 (this.2 heq) (hb hc)
  | log l0 x =>
    simp only [cleanStep] at hc
    have := micro_hist_log w w' l l0 x h
    by_cases heq : l0 = l
    · rw [if_pos heq] at this
      unfold Fresh
      rw [this.1, this.2, List.getLast?_concat]
      rfl
    · rw [if_neg heq] at this hc
      exact fresh_congr this.1 this.2 (hb hc)
  | condense l0 n x =>
    have hf : Fresh w l := hb hc
    have := micro_condense w w' l0 n x l h
    by_cases heq : l0 = l
    · obtain ⟨L, L', hcl, hL, hL'⟩ := this.2.2 heq
      unfold Fresh
      rw [hL', this.1, condense_last L L' n x hcl, ← hL, fresh_last hf]
    · exact fresh_congr (this.2.1 heq) this.1 hf
  | loadComp l0 i =>
    have hl := micro_quiet_labs w w' _ rfl h
    exact fresh_congr (whist_of_labs hl l) (wvols_of_labs hl l) (hb hc)
  | emit r =>
    have hl := micro_quiet_labs w w' _ rfl h
    exact fresh_congr (whist_of_labs hl l) (wvols_of_labs hl l) (hb hc)
  | setDiti k =>
    have hl := micro_quiet_labs w w' _ rfl h
    exact fresh_congr (whist_of_labs hl l) (wvols_of_labs hl l) (hb hc)
  | fail e =>
    have hl := micro_quiet_labs w w' _ rfl h
    exact fresh_congr (whist_of_labs hl l) (wvols_of_labs hl l) (hb hc)

/-- If the static tracker says "clean" at the end, the newest entry is up to date at the end. -/
private theorem exec_fresh (ms : List Micro) (w w' : World) (l : Nat) (b : Bool)
    (h : w.exec ms = (w', none)) (hb : b = true → Fresh w l) (hc : clean l b ms = true) :
    Fresh w' l := by
  induction ms generalizing w b with
  | nil =>
    simp only [World.exec_nil, Prod.mk.injEq, and_true] at h
    subst h
    exact hb hc
  | cons m ms ih =>
    cases hm : w.micro m with
    | ok w1 =>
      rw [World.exec_cons_ok _ hm] at h
      rw [clean_cons] at hc
      exact ih w1 (cleanStep l b m) h (fun hc' => micro_fresh w w1 m l b hm hb hc') hc
    | error e => rw [World.exec_cons_error _ hm] at h; cases h

private theorem condense_world (w w' : World) (l n : Nat) (label : Option String)
    (hl : label ≠ some "first" ∧ label ≠ some "last")
    (h : w.micro (.condense l n label) = .ok w')
    (base ext : List (Option String × List Rat)) (hh : whist w l = base ++ ext)
    (hn : ext.length = n) (hf : Fresh w l) :
    whist w' l = base ++ [(label, wvols w' l)] ∧ (∀ l', wvols w' l' = wvols w l')
      ∧ (∀ l', l ≠ l' → whist w' l' = whist w l') := by
  have hc := fun l' => micro_condense w w' l n label l' h
  refine ⟨?_, fun l' => (hc l').1, fun l' hne => (hc l').2.1 hne⟩
  obtain ⟨L, L', hcl, hL, hL'⟩ := (hc l).2.2 rfl
  have hs := (condense_spec L L' n label hl hcl).1
  have ht : List.take ((whist w l).length - n) (whist w l) = base := by
    rw [hh, List.length_append, hn, Nat.add_sub_cancel]
    exact List.take_left' rfl
  rw [hL', hs, ← hL, (hc l).1, ht, fresh_last hf]

private theorem lvhLabel_ne (label : Option String) (extra : Nat)
    (hl : label ≠ some "first" ∧ label ≠ some "last") :
    lvhLabel label extra ≠ some "first" ∧ lvhLabel label extra ≠ some "last" := by
  have h5 : "first".length = 5 := by decide +kernel
  have h4 : "last".length = 4 := by decide +kernel
  have h10 : " LVH steps".length = 10 := by decide +kernel
  have h11 : " LVH steps)".length = 11 := by decide +kernel
  have hA : ∀ s : String, s ++ " LVH steps" ≠ "first" ∧ s ++ " LVH steps" ≠ "last" := by
    intro s
    constructor <;> intro e <;> have := congrArg String.length e <;>
      rw [String.length_append] at this <;> omega
  have hB : ∀ s : String, s ++ " LVH steps)" ≠ "first" ∧ s ++ " LVH steps)" ≠ "last" := by
    intro s
    constructor <;> intro e <;> have := congrArg String.length e <;>
      rw [String.length_append] at this <;> omega
  unfold lvhLabel
  split
  · exact hl
  · split
    · split
      · exact ⟨fun e => (hA _).1 (Option.some.inj e), fun e => (hA _).2 (Option.some.inj e)⟩
      · exact ⟨fun e => (hB _).1 (Option.some.inj e), fun e => (hB _).2 (Option.some.inj e)⟩
    · exact ⟨fun e => (hA _).1 (Option.some.inj e), fun e => (hA _).2 (Option.some.inj e)⟩

/-! ### Transfers: exactly one entry per participating labware -/

/-- The number of `log` micro-operations per labware of a transfer plan's micro-operations equals
    the number of pipetting pairs (twice that when source and destination are the same labware),
    which is exactly what the final `condense_log` folds together. -/
theorem transfer_entries (w w' : World) (src dst : Nat) (sw dw : Arr String) (vols : Arr Rat)
    (label : Option String) (wash : WashArg) (pb : String) (kw : KW)
    (hl : label ≠ some "first" ∧ label ≠ some "last")
    (hfs : Fresh w src) (hfd : Fresh w dst)
    (h : w.step (.transfer src sw dst dw vols label wash pb kw) = (w', none)) :
    ∃ label', whist w' src = whist w src ++ [(label', wvols w' src)]
      ∧ whist w' dst = whist w dst ++ [(label', wvols w' dst)]
      ∧ (∀ l, l ≠ src → l ≠ dst → whist w' l = whist w l)
      ∧ (∃ extra : Nat, label' = lvhLabel label extra) := by
  unfold World.step compile at h
  simp only at h
  cases hS : w.labs[src]? with
  | none => rw [hS] at h; exact absurd h (exec_reject_not_ok _ _)
  | some S =>
    rw [hS] at h
    simp only at h
    cases hD : w.labs[dst]? with
    | none => rw [hD] at h; exact absurd h (exec_reject_not_ok _ _)
    | some D =>
      rw [hD] at h
      simp only at h
      rcases compileTransfer_shape w.cfg S src sw D dst dw vols label wash pb kw with
        ⟨e, he⟩ | ⟨plan, extra, hshape⟩
      · rw [he] at h; exact absurd h (exec_fail_not_ok _ _ _)
      · rw [hshape] at h
        obtain ⟨mid, hmid, hcond⟩ := exec_append_ok h
        have hl' := lvhLabel_ne label extra hl
        suffices main : whist w' src = whist w src ++ [(lvhLabel label extra, wvols w' src)]
            ∧ whist w' dst = whist w dst ++ [(lvhLabel label extra, wvols w' dst)]
            ∧ (∀ l, l ≠ src → l ≠ dst → whist w' l = whist w l) from
          ⟨_, main.1, main.2.1, main.2.2, extra, rfl⟩
        generalize lvhLabel label extra = label' at hcond hl' ⊢
        have hqc := quiet_commentMicros label
        have hnf := exec_noFail hmid
        have hnc : ∀ m ∈ commentMicros label
            ++ plan.flatMap (transferBlock w.cfg S src D dst wash kw), isCondense m = false := by
          intro m hm
          rcases List.mem_append.1 hm with hm | hm
          · exact noCondense_quiet _ hqc m hm
          · exact plan_noCondense _ _ _ _ _ _ _ plan m hm
        have hgrow : ∀ l, ∃ ext, whist mid l = whist w l ++ ext ∧ ext.length
            = countPairs plan * ((if src = l then 1 else 0) + (if dst = l then 1 else 0)) := by
          intro l
          obtain ⟨ext, h1, h2⟩ := exec_hist_append w _ l hnc
          rw [hmid] at h1
          rw [C04.executed_all_of_ok w mid _ hmid, logsOn_append, logsOn_quiet l _ hqc, Nat.zero_add,
            plan_logs w.cfg S src D dst wash kw plan l
              (fun m hm => hnf m (List.mem_append_right _ hm))] at h2
          exact ⟨ext, h1, h2⟩
        have hclean : ∀ l, clean l true (commentMicros label
            ++ plan.flatMap (transferBlock w.cfg S src D dst wash kw)) = true := fun l =>
          clean_append_true l _ _ (clean_quiet l true _ hqc)
            (clean_flatMap_true l _ plan (clean_transferBlock l w.cfg S src D dst wash kw))
        have hFs : Fresh mid src := exec_fresh _ w mid src true hmid (fun _ => hfs) (hclean src)
        have hFd : Fresh mid dst := exec_fresh _ w mid dst true hmid (fun _ => hfd) (hclean dst)
        have hother : ∀ l, l ≠ src → l ≠ dst → whist mid l = whist w l := by
          intro l h1 h2
          obtain ⟨ext, he, hlen⟩ := hgrow l
          rw [if_neg (fun e => h1 e.symm), if_neg (fun e => h2 e.symm)] at hlen
          have : ext = [] := List.eq_nil_of_length_eq_zero (by omega)
          rw [he, this, List.append_nil]
        by_cases hsd : src = dst
        · subst hsd
          rw [if_pos rfl] at hcond
          have hm := exec_singleton_ok hcond
          obtain ⟨ext, hext, hlen⟩ := hgrow src
          rw [if_pos rfl] at hlen
          have hcw := condense_world mid w' src (2 * countPairs plan) label' hl' hm (whist w src) ext
            hext (by omega) hFs
          refine ⟨hcw.1, hcw.1, fun l h1 _ => ?_⟩
          rw [hcw.2.2 l (fun e => h1 e.symm), hother l h1 h1]
        · rw [if_neg hsd] at hcond
          obtain ⟨w1, hc1, hc2⟩ := exec_append_ok
            (a := [Micro.condense src (countPairs plan) label'])
            (b := [Micro.condense dst (countPairs plan) label']) hcond
          have hm1 := exec_singleton_ok hc1
          have hm2 := exec_singleton_ok hc2
          obtain ⟨ext1, hext1, hlen1⟩ := hgrow src
          obtain ⟨ext2, hext2, hlen2⟩ := hgrow dst
          rw [if_pos rfl, if_neg (fun e => hsd e.symm)] at hlen1
          rw [if_pos rfl, if_neg hsd] at hlen2
          have hcw1 := condense_world mid w1 src (countPairs plan) label' hl' hm1 (whist w src) ext1
            hext1 (by omega) hFs
          have hFd1 : Fresh w1 dst := fresh_congr (hcw1.2.2 dst hsd) (hcw1.2.1 dst) hFd
          have hcw2 := condense_world w1 w' dst (countPairs plan) label' hl' hm2 (whist w dst) ext2
            (by rw [hcw1.2.2 dst hsd]; exact hext2) (by omega) hFd1
          refine ⟨?_, hcw2.1, fun l h1 h2 => ?_⟩
          · rw [hcw2.2.2 src (fun e => hsd e.symm), hcw2.2.1 src]
            exact hcw1.1
          · rw [hcw2.2.2 l (fun e => h2 e.symm), hcw1.2.2 l (fun e => h1 e.symm), hother l h1 h2]

/-! ### Helper lemmas (counting the pairs of a transfer plan) -/

private theorem sum_map_add' {α : Type} (xs : List α) (a b : α → Nat) :
    (xs.map fun x => a x + b x).sum = (xs.map a).sum + (xs.map b).sum := by
  induction xs with
  | nil => rfl
  | cons x xs ih => simp only [List.map_cons, List.sum_cons, ih]; omega

private theorem sum_range_lt (N k : Nat) :
    ((List.range N).map fun p => if p < k then 1 else 0).sum = min N k := by
  induction N with
  | zero => simp
  | succ N ih =>
    rw [List.range_succ, List.map_append, List.sum_append, ih]
    simp only [List.map_cons, List.map_nil, List.sum_cons, List.sum_nil]
    split <;> omega

private theorem sum_map_flatten {α : Type} (parts : List (List α)) (h : α → Nat) :
    (parts.map fun g => (g.map h).sum).sum = (parts.flatten.map h).sum := by
  induction parts with
  | nil => rfl
  | cons g parts ih =>
    rw [List.map_cons, List.sum_cons, ih, List.flatten_cons, List.map_append, List.sum_append]

private theorem countPairs_append (a b : List PlanStep) :
    countPairs (a ++ b) = countPairs a + countPairs b := by
  simp only [countPairs, List.filter_append, List.length_append]

private theorem countPairs_flatMap {α : Type} (xs : List α) (h : α → List PlanStep) :
    countPairs (xs.flatMap h) = (xs.map fun x => countPairs (h x)).sum := by
  induction xs with
  | nil => rfl
  | cons x xs ih => rw [List.flatMap_cons, countPairs_append, ih, List.map_cons, List.sum_cons]

private theorem countPairs_pairs (ps : List (String × String × Rat)) :
    countPairs (ps.flatMap fun (s, d, v) => [PlanStep.pair s d v, PlanStep.action]) = ps.length := by
  induction ps with
  | nil => rfl
  | cons x xs ih =>
    obtain ⟨s, d, v⟩ := x
    rw [List.flatMap_cons, countPairs_append, ih, List.length_cons]
    simp only [countPairs, List.filter_cons, if_true, Bool.false_eq_true, if_false, List.filter_nil,
      List.length_cons, List.length_nil]
    omega

private theorem countPairs_brk (c : Prop) [Decidable c] :
    countPairs (if c then [PlanStep.brk] else []) = 0 := by
  split <;> rfl

private theorem countPairs_groupPlan (g : List Triple) (vls : List (List Rat)) :
    countPairs (groupPlan g vls)
      = ((List.range (maxLen vls)).map fun p => (roundPairs g vls p).length).sum := by
  unfold groupPlan
  simp only
  rw [countPairs_append, countPairs_brk, Nat.add_zero, countPairs_flatMap]
  congr 1
  apply List.map_congr_left
  intro p _
  rw [countPairs_append, countPairs_brk, countPairs_pairs, Nat.add_zero]

private theorem roundPairs_cons_length (F : Triple → List Rat) (t : Triple) (g : List Triple)
    (p : Nat) (hpos : ∀ v ∈ F t, 0 < v) :
    (roundPairs (t :: g) ((t :: g).map F) p).length
      = (if p < (F t).length then 1 else 0) + (roundPairs g (g.map F) p).length := by
  unfold roundPairs
  rw [List.map_cons, List.zip_cons_cons, List.filterMap_cons]
  simp only
  cases hv : (F t)[p]? with
  | none =>
    have : ¬ p < (F t).length := by
      rw [List.getElem?_eq_none_iff] at hv; omega
    simp only [if_neg this, Nat.zero_add]
  | some v =>
    have hlt : p < (F t).length := (List.getElem?_eq_some_iff.1 hv).1
    have hv0 : 0 < v := hpos v (List.mem_of_getElem? hv)
    simp only [if_pos hv0, if_pos hlt, List.length_cons]
    omega

/-- Summing the rounds counts every (positive) step of every triple exactly once. -/
private theorem rounds_sum (F : Triple → List Rat) (g : List Triple) (N : Nat)
    (hN : ∀ t ∈ g, (F t).length ≤ N) (hpos : ∀ t ∈ g, ∀ v ∈ F t, 0 < v) :
    ((List.range N).map fun p => (roundPairs g (g.map F) p).length).sum
      = (g.map fun t => (F t).length).sum := by
  induction g with
  | nil =>
    have : (fun p => (roundPairs [] (List.map F []) p).length) = fun _ => 0 := rfl
    rw [this]
    simp
  | cons t g ih =>
    have hfun : (fun p => (roundPairs (t :: g) ((t :: g).map F) p).length)
        = fun p => (if p < (F t).length then 1 else 0) + (roundPairs g (g.map F) p).length :=
      funext fun p => roundPairs_cons_length F t g p (hpos t List.mem_cons_self)
    rw [hfun, sum_map_add', sum_range_lt,
      ih (fun t' h' => hN t' (List.mem_cons_of_mem _ h'))
        (fun t' h' => hpos t' (List.mem_cons_of_mem _ h')),
      List.map_cons, List.sum_cons, Nat.min_eq_right (hN t List.mem_cons_self)]

private theorem foldl_max_ge (ls : List (List Rat)) (a : Nat) :
    a ≤ ls.foldl (fun m l => max m l.length) a
    ∧ ∀ l ∈ ls, l.length ≤ ls.foldl (fun m l => max m l.length) a := by
  induction ls generalizing a with
  | nil => exact ⟨Nat.le_refl _, fun l h => by cases h⟩
  | cons x xs ih =>
    rw [List.foldl_cons]
    have h1 := ih (max a x.length)
    refine ⟨by omega, fun l hl => ?_⟩
    rcases List.mem_cons.1 hl with rfl | hl
    · omega
    · exact h1.2 l hl

private theorem length_le_maxLen (ls : List (List Rat)) : ∀ l ∈ ls, l.length ≤ maxLen ls :=
  (foldl_max_ge ls 0).2

private theorem countPairs_group (F : Triple → List Rat) (g : List Triple)
    (hpos : ∀ t ∈ g, ∀ v ∈ F t, 0 < v) :
    countPairs (groupPlan g (g.map F)) = (g.map fun t => (F t).length).sum := by
  rw [countPairs_groupPlan]
  apply rounds_sum F g _ _ hpos
  intro t ht
  exact length_le_maxLen _ _ (List.mem_map_of_mem ht)

private def stepsOf (M : Rat) (t : Triple) : List Rat := partitionVolume t.vol M

private theorem volLists_split (M : Rat) (g : List Triple) : volLists true M g = g.map (stepsOf M) := by
  unfold volLists stepsOf
  simp only [if_true]

private theorem stepsOf_pos (M : Rat) (hM : 0 < M) (t : Triple) (ht : 0 ≤ t.vol) :
    (∀ v ∈ stepsOf M t, 0 < v)
    ∧ ((stepsOf M t).length - 1) + (if 0 < t.vol then 1 else 0) = (stepsOf M t).length := by
  unfold stepsOf
  rcases lt_or_eq_of_le ht with h | h
  · have hs := C06.partition_spec t.vol M hM h
    refine ⟨fun v hv => (hs.2.1 v hv).1, ?_⟩
    rw [if_pos h]
    have := hs.2.2
    omega
  · rw [← h, C06.partition_zero]
    refine ⟨fun v hv => (by cases hv), ?_⟩
    rw [if_neg (lt_irrefl _)]
    rfl

private theorem extra_plus_positive (M : Rat) (hM : 0 < M) (ts : List Triple)
    (hnn : ∀ t ∈ ts, 0 ≤ t.vol) :
    (ts.map fun t => (stepsOf M t).length - 1).sum + (ts.filter fun t => 0 < t.vol).length
      = (ts.map fun t => (stepsOf M t).length).sum := by
  induction ts with
  | nil => rfl
  | cons t ts ih =>
    have ih' := ih (fun t' h' => hnn t' (List.mem_cons_of_mem _ h'))
    have hp := (stepsOf_pos M hM t (hnn t List.mem_cons_self)).2
    simp only [List.map_cons, List.sum_cons, List.filter_cons]
    by_cases hv : 0 < t.vol
    · rw [if_pos hv] at hp
      simp only [hv, decide_true, if_true, List.length_cons]
      omega
    · rw [if_neg hv] at hp
      simp only [hv, decide_false, Bool.false_eq_true, if_false]
      omega

/-- The reported number of large-volume steps is the number of extra pipetting pairs that
    splitting added: (number of pairs) − (number of requested volumes > 0), for `auto_split`. -/
theorem lvh_count (M : Rat) (byDest : Bool) (ts : List Triple) (hM : 0 < M) (hnn : ∀ t ∈ ts, 0 ≤ t.vol) :
    lvhExtra true M byDest ts + (ts.filter fun t => 0 < t.vol).length = countPairs (transferPlan true M byDest ts) := by
  have hperm := C18.perm ts byDest
  have hmem : ∀ g ∈ partitionByColumn ts byDest, ∀ t ∈ g, t ∈ ts := fun g hg t ht =>
    hperm.mem_iff.1 (List.mem_flatten.2 ⟨g, hg, ht⟩)
  have hcount : countPairs (transferPlan true M byDest ts)
      = (ts.map fun t => (stepsOf M t).length).sum := by
    unfold transferPlan
    rw [countPairs_flatMap]
    have : ((partitionByColumn ts byDest).map fun g => countPairs (groupPlan g (volLists true M g)))
        = (partitionByColumn ts byDest).map fun g => (g.map fun t => (stepsOf M t).length).sum := by
      apply List.map_congr_left
      intro g hg
      rw [volLists_split, countPairs_group (stepsOf M) g
        (fun t ht => (stepsOf_pos M hM t (hnn t (hmem g hg t ht))).1)]
    rw [this, sum_map_flatten]
    exact (hperm.map _).sum_nat
  have hextra : lvhExtra true M byDest ts = (ts.map fun t => (stepsOf M t).length - 1).sum := by
    unfold lvhExtra
    have : ((partitionByColumn ts byDest).map fun g =>
          ((volLists true M g).map fun vs => vs.length - 1).sum)
        = (partitionByColumn ts byDest).map fun g =>
          (g.map fun t => (stepsOf M t).length - 1).sum := by
      apply List.map_congr_left
      intro g _
      rw [volLists_split, List.map_map]
      rfl
    rw [this, sum_map_flatten]
    exact (hperm.map _).sum_nat
  rw [hcount, hextra]
  exact extra_plus_positive M hM ts hnn

/-- Without splitting there are no extra steps. -/
theorem lvh_zero_no_split (M : Rat) (byDest : Bool) (ts : List Triple) : lvhExtra false M byDest ts = 0 := by
  have hz : ∀ (xs : List Nat), (∀ x ∈ xs, x = 0) → xs.sum = 0 := by
    intro xs
    induction xs with
    | nil => intro _; rfl
    | cons x xs ih =>
      intro h
      rw [List.sum_cons, h x List.mem_cons_self, ih (fun y hy => h y (List.mem_cons_of_mem _ hy))]
  unfold lvhExtra
  apply hz
  intro x hx
  obtain ⟨g, _, rfl⟩ := List.mem_map.1 hx
  apply hz
  intro y hy
  obtain ⟨vs, hvs, rfl⟩ := List.mem_map.1 hy
  unfold volLists at hvs
  obtain ⟨t, _, rfl⟩ := List.mem_map.1 hvs
  rfl

/-- The large-volume note: the label is extended only when steps were added. -/
theorem lvh_label (label : Option String) : lvhLabel label 0 = label := by
  unfold lvhLabel
  rw [if_pos rfl]

/-- The printable report lists the name and then the same entries in the same order, for any
    formatter of a snapshot. -/
def report (fmt : List Rat → String) (L : Labware) : List String :=
  L.name :: L.hist.flatMap fun e => (match e.1 with | some s => if s.isEmpty then [] else [s] | none => []) ++ [fmt e.2, ""]

theorem report_order (fmt : List Rat → String) (L : Labware) :
    (report fmt L).head? = some L.name
    ∧ ((report fmt L).drop 1) = L.hist.flatMap fun e => (match e.1 with | some s => if s.isEmpty then [] else [s] | none => []) ++ [fmt e.2, ""] := by
  exact ⟨rfl, rfl⟩

example : lvhLabel (some "x") 2 = some "x (2 LVH steps)" := by decide +kernel

end Robotools.C11
