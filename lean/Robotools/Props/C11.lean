/-
  C11 — the labware history is append-only, condensed per operation, and truthful.

  `report`'s array formatting (numpy's printer) is a parameter: `report_order` is stated for an
  arbitrary formatter (DESIGN §12).  Labels "first"/"last" are keywords of `condense_log`
  (known finding F7c); the transfer theorems carry the hypothesis that the label is not one of them.
-/
import Robotools.Props.C04
namespace Robotools.C11
open Robotools

/-- History of labware `l`. -/
def whist (w : World) (l : Nat) : List (Option String × List Rat) :=
  match w.labs[l]? with
  | some L => L.hist
  | none => []

/-- Current volumes of labware `l`. -/
def wvols (w : World) (l : Nat) : List Rat :=
  match w.labs[l]? with
  | some L => L.vols
  | none => []

/-- The newest history entry equals the current volumes. -/
def Fresh (w : World) (l : Nat) : Prop := (whist w l).getLast?.map (·.2) = some (wvols w l)

def isCondense : Micro → Bool
  | .condense _ _ _ => true
  | _ => false

def logsOn (l : Nat) (ms : List Micro) : Nat :=
  (ms.filter fun m => match m with | .log l' _ => l' = l | _ => false).length

/-! ### Micro level: only `log` and `condense` touch the history; snapshots are values -/

theorem micro_hist_other (w w' : World) (m : Micro) (l : Nat) (h : w.micro m = .ok w')
    (hm : ∀ l' x, m ≠ .log l' x) (hc : isCondense m = false) : whist w' l = whist w l := by
  sorry

theorem micro_hist_log (w w' : World) (l l' : Nat) (label : Option String) (h : w.micro (.log l' label) = .ok w') :
    whist w' l = (if l' = l then whist w l ++ [(label, wvols w l)] else whist w l) ∧ wvols w' l = wvols w l := by
  sorry

/-- Without condensation the history only grows: earlier entries are never altered or dropped, and
    it grows by exactly one entry per `log`. -/
theorem exec_hist_append (w : World) (ms : List Micro) (l : Nat) (hc : ∀ m ∈ ms, isCondense m = false) :
    ∃ ext, whist (w.exec ms).1 l = whist w l ++ ext ∧ ext.length = logsOn l (C04.executed w ms) := by
  sorry

/-- `condense_log n` with an ordinary label keeps everything but the last `n` entries and appends
    one entry carrying the newest snapshot. -/
theorem condense_spec (L L' : Labware) (n : Nat) (label : Option String)
    (hl : label ≠ some "first" ∧ label ≠ some "last") (h : L.condenseLog n label = .ok L') :
    L'.hist = L.hist.take (L.hist.length - n) ++ [(label, ((L.hist.getLast?.getD (none, [])).2))]
    ∧ L'.vols = L.vols := by
  sorry

/-! ### Direct calls and single worklist operations: one entry per call -/

theorem add_one_entry (w w' : World) (l : Nat) (wells : Arr String) (vols : Arr Rat) (label : Option String)
    (comps : Option (List (Option Comp))) (h : w.step (.add l wells vols label comps) = (w', none)) :
    whist w' l = whist w l ++ [(label, wvols w' l)] ∧ ∀ l', l' ≠ l → whist w' l' = whist w l' := by
  sorry

theorem remove_one_entry (w w' : World) (l : Nat) (wells : Arr String) (vols : Arr Rat) (label : Option String)
    (h : w.step (.remove l wells vols label) = (w', none)) :
    whist w' l = whist w l ++ [(label, wvols w' l)] ∧ ∀ l', l' ≠ l → whist w' l' = whist w l' := by
  sorry

theorem aspirate_one_entry (w w' : World) (l : Nat) (wells : Arr String) (vols : Arr Rat) (label : Option String) (kw : KW)
    (h : w.step (.aspirate l wells vols label kw) = (w', none)) :
    whist w' l = whist w l ++ [(label, wvols w' l)] ∧ ∀ l', l' ≠ l → whist w' l' = whist w l' := by
  sorry

theorem dispense_one_entry (w w' : World) (l : Nat) (wells : Arr String) (vols : Arr Rat) (label : Option String)
    (comps : Option (List (Option Comp))) (kw : KW)
    (h : w.step (.dispense l wells vols label comps kw) = (w', none)) :
    whist w' l = whist w l ++ [(label, wvols w' l)] ∧ ∀ l', l' ≠ l → whist w' l' = whist w l' := by
  sorry

/-- Operations that only emit records leave every history untouched. -/
theorem record_ops_no_entry (w w' : World) (op : Op) (e : Option Err)
    (hop : op = .comment none ∨ (∃ s, op = .comment (some s)) ∨ (∃ n, op = .wash n) ∨ op = .decontaminate ∨ op = .flush
           ∨ op = .commit ∨ (∃ i, op = .setDiti i) ∨ (∃ a, op = .aspirateWell a) ∨ (∃ a, op = .dispenseWell a)
           ∨ (∃ a, op = .reagentDistribution a))
    (h : w.step op = (w', e)) : ∀ l, whist w' l = whist w l := by
  sorry

/-! ### Transfers: exactly one entry per participating labware -/

/-- The number of `log` micro-operations per labware of a transfer plan's micro-operations equals
    the number of pipetting pairs (twice that when source and destination are the same labware),
    which is exactly what the final `condense_log` folds together. -/
theorem transfer_entries (w w' : World) (src dst : Nat) (sw dw : Arr String) (vols : Arr Rat)
    (label : Option String) (wash : WashArg) (pb : String) (kw : KW)
    (hl : label ≠ some "first" ∧ label ≠ some "last")
    (hfs : Fresh w src) (hfd : Fresh w dst)
    (h : w.step (.transfer src sw dst dw vols label wash pb kw) = (w', none)) :
    ∃ label', whist w' src = whist w src ++ [(label', wvols w' src)]
      ∧ whist w' dst = whist w dst ++ [(label', wvols w' dst)]
      ∧ (∀ l, l ≠ src → l ≠ dst → whist w' l = whist w l)
      ∧ (∃ extra : Nat, label' = lvhLabel label extra) := by
  sorry

/-- The reported number of large-volume steps is the number of extra pipetting pairs that
    splitting added: (number of pairs) − (number of requested volumes > 0), for `auto_split`. -/
theorem lvh_count (M : Rat) (byDest : Bool) (ts : List Triple) (hM : 0 < M) (hnn : ∀ t ∈ ts, 0 ≤ t.vol) :
    lvhExtra true M byDest ts + (ts.filter fun t => 0 < t.vol).length = countPairs (transferPlan true M byDest ts) := by
  sorry

/-- Without splitting there are no extra steps. -/
theorem lvh_zero_no_split (M : Rat) (byDest : Bool) (ts : List Triple) : lvhExtra false M byDest ts = 0 := by
  sorry

/-- The large-volume note: the label is extended only when steps were added. -/
theorem lvh_label (label : Option String) : lvhLabel label 0 = label := by
  sorry

/-- The printable report lists the name and then the same entries in the same order, for any
    formatter of a snapshot. -/
def report (fmt : List Rat → String) (L : Labware) : List String :=
  L.name :: L.hist.flatMap fun e => (match e.1 with | some s => if s.isEmpty then [] else [s] | none => []) ++ [fmt e.2, ""]

theorem report_order (fmt : List Rat → String) (L : Labware) :
    (report fmt L).head? = some L.name
    ∧ ((report fmt L).drop 1) = L.hist.flatMap fun e => (match e.1 with | some s => if s.isEmpty then [] else [s] | none => []) ++ [fmt e.2, ""] := by
  sorry

example : lvhLabel (some "x") 2 = some "x (2 LVH steps)" := by decide +kernel

end Robotools.C11
