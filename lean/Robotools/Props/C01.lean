/-
  C01 — the emitted worklist reproduces the tracked labware state when executed.

  `RState.run` is the independent interpreter of the record list (Model/Replay.lean): it resolves
  rack label → labware by name and position → real well by the *inverse* device numbering, and
  refuses any step that violates a volume limit.  `RP.Match st w` says that the replayed state
  `st` has, labware by labware and well by well, exactly the tracked volumes of `w`.
-/
import Robotools.Props.C03
import Robotools.Proofs.AmtLemmas
import Mathlib.Tactic.Linarith
namespace Robotools
namespace C01
open RP C03

/-- **C01 (volumes).**  For every program of tracked worklist operations (aspirate, dispense,
    transfer with or without splitting, and the record-only operations) that runs to the end on
    well-formed labware, replaying the emitted records from the initial contents succeeds and
    gives every real well of every labware exactly the volume the `Labware` objects report. -/
theorem replay_volumes (w₀ : World) (hwf : WF w₀) (h0 : w₀.recs = []) (ops : List Op)
    (hops : ∀ op ∈ ops, tracked op = true) (hok : (w₀.run ops).2 = none) :
    ∃ st, (RState.ofLabs w₀.labs).run w₀.cfg.dev (w₀.run ops).1.recs = some st
      ∧ Match st (w₀.run ops).1 := by
  have hinv0 : Inv w₀.cfg.dev w₀.labs w₀ := ⟨RState.ofLabs w₀.labs, by rw [h0]; rfl, match_ofLabs w₀⟩
  generalize hlabs : w₀.labs = labs₀ at hinv0 ⊢
  generalize hdev : w₀.cfg.dev = dev at hinv0 ⊢
  clear h0 hlabs
  induction ops generalizing w₀ with
  | nil => exact hinv0
  | cons op ops ih =>
    have hop := hops op List.mem_cons_self
    obtain ⟨_, hinv⟩ := step_safe labs₀ w₀ hwf op hop (by rw [hdev]; exact hinv0)
    rw [hdev] at hinv
    unfold World.run at hok ⊢
    cases hx : w₀.step op with
    | mk w' e =>
      rw [hx] at hinv hok
      cases e with
      | some e => cases hok
      | none =>
        have hcfg : w'.cfg = w₀.cfg := by have := step_cfg w₀ op; rw [hx] at this; exact this
        have hwf' : WF w' := by have := step_wf w₀ op hwf; rw [hx] at this; exact this
        exact ih w' hwf' (fun o ho => hops o (List.mem_cons_of_mem _ ho)) hok
          (by rw [hcfg]; exact hdev) (hinv rfl)

/-- What `Match` means well by well: equal volumes at every index of every labware. -/
theorem match_vol {st : RState} {w : World} (hM : Match st w) (l : Nat) (L : Labware)
    (hL : w.labs[l]? = some L) :
    ∃ R, st.labs[l]? = some R ∧ R.name = L.name ∧ R.wells.map (·.vol) = L.vols := by
  obtain ⟨R, hR, hRL⟩ := forall₂_getElem? hM hL
  exact ⟨R, hR, hRL.name, hRL.vols⟩

/-- Every `A;`/`D;` record an `aspirate`/`dispense`/`transfer` emits for well `s` of labware `L`
    carries the labware's name as rack label, the device-specific position of that well, and
    the requested volume — and the volume never exceeds the worklist's `max_volume`. -/
theorem record_address (cfg : Cfg) (L : Labware) (isAsp : Bool) (kw : KW) (s : String) (v : Rat)
    (rs : List Rec) (h : adOut cfg L isAsp kw (s, v) = .ok rs) (r : Rec) (hr : r ∈ rs) :
    ∃ f pos, (r = .asp f ∨ r = .disp f) ∧ cfg.dev.pos L.geom s = .ok pos
      ∧ f.rackLabel = L.name ∧ f.position = pos ∧ f.vol = v ∧ f.vol ≤ cfg.maxVolume := by
  unfold adOut at h
  split at h
  · cases hp : cfg.dev.pos L.geom s with
    | error e => simp [hp] at h
    | ok pos =>
      simp only [hp] at h
      split at h
      · cases h
      · rename_i f hprep
        simp only [Except.ok.injEq] at h
        subst h
        simp only [List.mem_singleton] at hr
        obtain ⟨hfv, hfl, hfp, hmax⟩ := prepareAD_fields _ _ _ hprep
        refine ⟨f, pos, ?_, rfl, hfl, by rw [hfp]; simp, hfv, ?_⟩
        · cases isAsp <;> simp_all
        · rw [hfv]; exact hmax _ rfl
  · simp only [Except.ok.injEq] at h
    subst h
    cases hr

/-! ### Composition -/

/-- One traceable operation from a good state in which the replay mirrors volumes and amounts. -/
theorem step_amounts (labs₀ : List Labware) (w : World) (hwf : WF w) (op : Op)
    (hop : Amt.traceable op = true) (hG : Amt.Good w) (hinv : Amt.AInv w.cfg.dev labs₀ w)
    (hok : (w.step op).2 = none) :
    Amt.AInv w.cfg.dev labs₀ (w.step op).1 ∧ Amt.Good (w.step op).1 :=
  Amt.compile_ablock (labs₀ := labs₀) w hwf op hop w rfl hG hinv hok

/-- **C01 (composition).**  For every program of traceable worklist operations (transfers with or
    without splitting, within one labware or between labware, in any order, plus the record-only
    operations) that runs to the end on well-formed labware with a well-formed composition table,
    the independent interpreter — which knows nothing of fractions: it moves *absolute amounts* with
    the liquid, proportionally on every aspirate — ends with, in every real well and for every
    component, exactly `fraction × volume` of what the `Labware` objects report.  So the composition
    the user inspects is the composition the executed file produces. -/
theorem replay_composition (w₀ : World) (hwf : WF w₀) (hgood : Amt.Good w₀) (h0 : w₀.recs = [])
    (ops : List Op) (hops : ∀ op ∈ ops, Amt.traceable op = true) (hok : (w₀.run ops).2 = none) :
    (∃ st, (RState.ofLabs w₀.labs).run w₀.cfg.dev (w₀.run ops).1.recs = some st
      ∧ Match st (w₀.run ops).1 ∧ Amt.AmtOK st (w₀.run ops).1) ∧ Amt.Good (w₀.run ops).1 := by
  have hinv0 : Amt.AInv w₀.cfg.dev w₀.labs w₀ :=
    ⟨RState.ofLabs w₀.labs, by rw [h0]; rfl, match_ofLabs w₀, Amt.amtOK_ofLabs w₀ hgood⟩
  generalize hlabs : w₀.labs = labs₀ at hinv0 ⊢
  generalize hdev : w₀.cfg.dev = dev at hinv0 ⊢
  clear h0 hlabs
  induction ops generalizing w₀ with
  | nil => exact ⟨hinv0, hgood⟩
  | cons op ops ih =>
    have hop := hops op List.mem_cons_self
    unfold World.run at hok ⊢
    cases hx : w₀.step op with
    | mk w' e =>
      rw [hx] at hok
      cases e with
      | some e => cases hok
      | none =>
        obtain ⟨hinv, hG'⟩ := step_amounts labs₀ w₀ hwf op hop hgood (by rw [hdev]; exact hinv0)
          (by rw [hx])
        rw [hdev, hx] at hinv
        rw [hx] at hG'
        have hcfg : w'.cfg = w₀.cfg := by have := step_cfg w₀ op; rw [hx] at this; exact this
        have hwf' : WF w' := by have := step_wf w₀ op hwf; rw [hx] at this; exact this
        exact ih w' hwf' hG' (fun o ho => hops o (List.mem_cons_of_mem _ ho)) hok
          (by rw [hcfg]; exact hdev) hinv

/-- What `AmtOK` means well by well: the replayed amount of every component equals the tracked
    fraction times the tracked volume. -/
theorem amount_well {st : RState} {w : World} (hM : Match st w) (hA : Amt.AmtOK st w) (l : Nat)
    (L : Labware) (hL : w.labs[l]? = some L) (i : Nat) (hi : i < L.vols.length) :
    ∃ R wl, st.labs[l]? = some R ∧ R.wells[i]? = some wl ∧ wl.vol = L.vol i
      ∧ ∀ k, amtOf wl.amts k = L.frac i k * L.vol i := by
  obtain ⟨R, hR, hRL⟩ := forall₂_getElem? hM hL
  obtain ⟨R2, hR2, hRA⟩ := forall₂_getElem? hA hL
  rw [hR] at hR2; cases hR2
  have hiR : i < R.wells.length := by rw [hRL.length]; exact hi
  have hw : R.wells[i]? = some R.wells[i] := List.getElem?_eq_getElem hiR
  exact ⟨R, R.wells[i], hR, hw, hRL.vol_eq hw, (hRA i _ hw).amt⟩

/-! ### Two-decimal rendering -/

theorem roundHalfEven_close (x : Rat) : |(roundHalfEven x : Rat) - x| ≤ 1 / 2 := by
  have h1 : ((x.floor : Int) : Rat) ≤ x := Rat.floor_le x
  have h2 : x < ((x.floor : Int) : Rat) + 1 := by
    have := Rat.lt_floor_add_one x
    push_cast at this
    exact this
  unfold roundHalfEven
  simp only
  split
  · rename_i h
    rw [abs_le]; constructor <;> linarith
  · split
    · rename_i h
      push_cast
      rw [abs_le]; constructor <;> linarith
    · rename_i hlt hgt
      have hd : x - (x.floor : Rat) = 1 / 2 := le_antisymm (not_lt.mp hgt) (not_lt.mp hlt)
      split
      · rw [abs_le]; constructor <;> linarith
      · push_cast
        rw [abs_le]; constructor <;> linarith

/-- The volume field of a record (`"%.2f"` of `numpy.round(v, 2)`) differs from the exact volume
    by at most half a hundredth. -/
theorem render_vol_close (v : Rat) : |((round2 v : Int) : Rat) / 100 - v| ≤ 1 / 200 := by
  have h := roundHalfEven_close (v * 100)
  unfold round2
  rw [abs_le] at h ⊢
  constructor <;> linarith [h.1, h.2]

/-! ### Non-vacuity: a trough and a plate, a transfer that is split and spans two columns -/

def exPlate : Labware := { name := "P", geom := ⟨2, 3, none⟩, minV := 0, maxV := 300, vols := [0,0,0,0,0,0], comp := [], hist := [] }
def exTrough : Labware := { name := "T", geom := ⟨1, 2, some 4⟩, minV := 10, maxV := 10000, vols := [5000, 5000], comp := [("water",[1,1])], hist := [] }
def exW : World := { cfg := ⟨.evo, 100, true, false⟩, labs := [exTrough, exPlate], recs := [], carry := [] }
def exOps : List Op := [.transfer 0 (.vec ["A01","B02"]) 1 (.vec ["A01","B03"]) (.vec [250, 30]) (some "x") (.scheme 1) "auto" {}]
example : WF exW := by
  refine ⟨by decide, ?_⟩
  intro x hx
  simp only [info, sinfo, exW, List.map_cons, List.map_nil, List.mem_cons, List.not_mem_nil, or_false] at hx
  rcases hx with rfl | rfl
  · exact ⟨fun v hv => by simp [exTrough] at hv; subst hv; exact ⟨rfl, by decide⟩, fun h => by simp [exTrough] at h, rfl⟩
  · exact ⟨fun v hv => by simp [exPlate] at hv, fun _ => ⟨by decide, by decide⟩, rfl⟩
example : (exW.run exOps).2 = none ∧ (exW.run exOps).1.recs.length = 14 := by decide +kernel

example : ((RState.ofLabs exW.labs).run .evo (exW.run exOps).1.recs).map
    (fun st => st.labs.map (fun L => L.wells.map (·.vol)))
    = some [[4750, 4970], [250, 0, 0, 0, 0, 30]] := by decide +kernel

/-! Non-vacuity of `replay_composition`: the same world is good, the program is traceable, and the replayed
    amounts of the component "water" are the tracked fractions times the tracked volumes. -/
example : Amt.Good exW := by
  intro L hL
  simp only [exW, List.mem_cons, List.not_mem_nil, or_false] at hL
  rcases hL with rfl | rfl
  · refine ⟨⟨by decide +kernel, by decide +kernel, ?_⟩, ⟨by decide, ?_, ?_⟩, ?_⟩
    · intro v hv
      simp only [exTrough, List.mem_cons, List.not_mem_nil, or_false, or_self] at hv
      subst hv; exact ⟨by decide +kernel, by decide +kernel⟩
    · intro p hp
      simp only [exTrough, List.mem_cons, List.not_mem_nil, or_false] at hp
      subst hp; rfl
    · intro p hp f hf
      simp only [exTrough, List.mem_cons, List.not_mem_nil, or_false] at hp
      subst hp
      simp only [List.mem_cons, List.not_mem_nil, or_false, or_self] at hf
      subst hf; decide +kernel
    · intro i hi
      have : i = 0 ∨ i = 1 := by simp only [exTrough, List.length_cons, List.length_nil] at hi; omega
      rcases this with rfl | rfl <;> exact Or.inl (by decide +kernel)
  · refine ⟨⟨by decide +kernel, by decide +kernel, ?_⟩, ⟨by decide, ?_, ?_⟩, ?_⟩
    · intro v hv
      simp only [exPlate, List.mem_cons, List.not_mem_nil, or_false, or_self] at hv
      subst hv; exact ⟨by decide +kernel, by decide +kernel⟩
    · intro p hp; simp [exPlate] at hp
    · intro p hp; simp [exPlate] at hp
    · intro i _
      exact Or.inr ⟨by simp [C05.fracSum, exPlate], by
        simp only [Labware.vol, exPlate]
        rcases i with _ | _ | _ | _ | _ | _ | i <;> simp [List.getD]⟩
example : ∀ op ∈ exOps, Amt.traceable op = true := by decide
example : ((RState.ofLabs exW.labs).run .evo (exW.run exOps).1.recs).map
    (fun st => st.labs.map (fun L => L.wells.map (fun wl => amtOf wl.amts "water")))
    = some [[4750, 4970], [250, 0, 0, 0, 0, 30]] := by decide +kernel
example : (exW.run exOps).1.labs.map (fun L => (List.range L.vols.length).map fun i => L.frac i "water" * L.vol i)
    = [[4750, 4970], [250, 0, 0, 0, 0, 30]] := by decide +kernel

end C01
end Robotools
