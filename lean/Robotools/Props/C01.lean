/-
  C01 — the emitted worklist reproduces the tracked labware state when executed.

  `RState.run` is the independent interpreter of the record list (Model/Replay.lean): it resolves
  rack label → labware by name and position → real well by the *inverse* device numbering, and
  refuses any step that violates a volume limit.  `RP.Match st w` says that the replayed state
  `st` has, labware by labware and well by well, exactly the tracked volumes of `w`.
-/
import Robotools.Props.C03
import Mathlib.Tactic.Linarith
namespace Robotools
namespace C01
open RP C03

/-- **C01 (volumes).**  For every program of tracked worklist operations (aspirate, dispense,
    transfer with or without splitting, and the record-only operations) that runs to the end on
    well-formed labware, replaying the emitted records from the initial contents succeeds and
    gives every real well of every labware exactly the volume the `Labware` objects report. -/
theorem replay_volumes (w₀ : World) (hwf : WF w₀) (h0 : w₀.recs = []) (ops : List Op)
    (hops : ∀ op ∈ ops, tracked op = true) (hok : (w₀.run ops).2 = none) :
    ∃ st, (RState.ofLabs w₀.labs).run w₀.cfg.dev (w₀.run ops).1.recs = some st
      ∧ Match st (w₀.run ops).1 := by
  have hinv0 : Inv w₀.cfg.dev w₀.labs w₀ := ⟨RState.ofLabs w₀.labs, by rw [h0]; rfl, match_ofLabs w₀⟩
  generalize hlabs : w₀.labs = labs₀ at hinv0 ⊢
  generalize hdev : w₀.cfg.dev = dev at hinv0 ⊢
  clear h0 hlabs
  induction ops generalizing w₀ with
  | nil => exact hinv0
  | cons op ops ih =>
    have hop := hops op List.mem_cons_self
    obtain ⟨_, hinv⟩ := step_safe labs₀ w₀ hwf op hop (by rw [hdev]; exact hinv0)
    rw [hdev] at hinv
    unfold World.run at hok ⊢
    cases hx : w₀.step op with
    | mk w' e =>
      rw [hx] at hinv hok
      cases e with
      | some e => cases hok
      | none =>
        have hcfg : w'.cfg = w₀.cfg := by have := step_cfg w₀ op; rw [hx] at this; exact this
        have hwf' : WF w' := by have := step_wf w₀ op hwf; rw [hx] at this; exact this
        exact ih w' hwf' (fun o ho => hops o (List.mem_cons_of_mem _ ho)) hok
          (by rw [hcfg]; exact hdev) (hinv rfl)

/-- What `Match` means well by well: equal volumes at every index of every labware. -/
theorem match_vol {st : RState} {w : World} (hM : Match st w) (l : Nat) (L : Labware)
    (hL : w.labs[l]? = some L) :
    ∃ R, st.labs[l]? = some R ∧ R.name = L.name ∧ R.wells.map (·.vol) = L.vols := by
  obtain ⟨R, hR, hRL⟩ := forall₂_getElem? hM hL
  exact ⟨R, hR, hRL.name, hRL.vols⟩

/-- Every `A;`/`D;` record an `aspirate`/`dispense`/`transfer` emits for well `s` of labware `L`
    carries the labware's name as rack label, the device-specific position of that well, and
    the requested volume — and the volume never exceeds the worklist's `max_volume`. -/
theorem record_address (cfg : Cfg) (L : Labware) (isAsp : Bool) (kw : KW) (s : String) (v : Rat)
    (rs : List Rec) (h : adOut cfg L isAsp kw (s, v) = .ok rs) (r : Rec) (hr : r ∈ rs) :
    ∃ f pos, (r = .asp f ∨ r = .disp f) ∧ cfg.dev.pos L.geom s = .ok pos
      ∧ f.rackLabel = L.name ∧ f.position = pos ∧ f.vol = v ∧ f.vol ≤ cfg.maxVolume := by
  unfold adOut at h
  split at h
  · cases hp : cfg.dev.pos L.geom s with
    | error e => simp [hp] at h
    | ok pos =>
      simp only [hp] at h
      split at h
      · cases h
      · rename_i f hprep
        simp only [Except.ok.injEq] at h
        subst h
        simp only [List.mem_singleton] at hr
        obtain ⟨hfv, hfl, hfp, hmax⟩ := prepareAD_fields _ _ _ hprep
        refine ⟨f, pos, ?_, rfl, hfl, by rw [hfp]; simp, hfv, ?_⟩
        · cases isAsp <;> simp_all
        · rw [hfv]; exact hmax _ rfl
  · simp only [Except.ok.injEq] at h
    subst h
    cases hr

/-! ### Two-decimal rendering -/

theorem roundHalfEven_close (x : Rat) : |(roundHalfEven x : Rat) - x| ≤ 1 / 2 := by
  have h1 : ((x.floor : Int) : Rat) ≤ x := Rat.floor_le x
  have h2 : x < ((x.floor : Int) : Rat) + 1 := by
    have := Rat.lt_floor_add_one x
    push_cast at this
    exact this
  unfold roundHalfEven
  simp only
  split
  · rename_i h
    rw [abs_le]; constructor <;> linarith
  · split
    · rename_i h
      push_cast
      rw [abs_le]; constructor <;> linarith
    · rename_i hlt hgt
      have hd : x - (x.floor : Rat) = 1 / 2 := le_antisymm (not_lt.mp hgt) (not_lt.mp hlt)
      split
      · rw [abs_le]; constructor <;> linarith
      · push_cast
        rw [abs_le]; constructor <;> linarith

/-- The volume field of a record (`"%.2f"` of `numpy.round(v, 2)`) differs from the exact volume
    by at most half a hundredth. -/
theorem render_vol_close (v : Rat) : |((round2 v : Int) : Rat) / 100 - v| ≤ 1 / 200 := by
  have h := roundHalfEven_close (v * 100)
  unfold round2
  rw [abs_le] at h ⊢
  constructor <;> linarith [h.1, h.2]

/-! ### Non-vacuity: a trough and a plate, a transfer that is split and spans two columns -/

def exPlate : Labware := { name := "P", geom := ⟨2, 3, none⟩, minV := 0, maxV := 300, vols := [0,0,0,0,0,0], comp := [], hist := [] }
def exTrough : Labware := { name := "T", geom := ⟨1, 2, some 4⟩, minV := 10, maxV := 10000, vols := [5000, 5000], comp := [("water",[1,1])], hist := [] }
def exW : World := { cfg := ⟨.evo, 100, true, false⟩, labs := [exTrough, exPlate], recs := [], carry := [] }
def exOps : List Op := [.transfer 0 (.vec ["A01","B02"]) 1 (.vec ["A01","B03"]) (.vec [250, 30]) (some "x") (.scheme 1) "auto" {}]
example : WF exW := by
  refine ⟨by decide, ?_⟩
  intro x hx
  simp only [info, sinfo, exW, List.map_cons, List.map_nil, List.mem_cons, List.not_mem_nil, or_false] at hx
  rcases hx with rfl | rfl
  · exact ⟨fun v hv => by simp [exTrough] at hv; subst hv; exact ⟨rfl, by decide⟩, fun h => by simp [exTrough] at h, rfl⟩
  · exact ⟨fun v hv => by simp [exPlate] at hv, fun _ => ⟨by decide, by decide⟩, rfl⟩
example : (exW.run exOps).2 = none ∧ (exW.run exOps).1.recs.length = 14 := by decide +kernel

example : ((RState.ofLabs exW.labs).run .evo (exW.run exOps).1.recs).map
    (fun st => st.labs.map (fun L => L.wells.map (·.vol)))
    = some [[4750, 4970], [250, 0, 0, 0, 0, 30]] := by decide +kernel

end C01
end Robotools
