/-
  C19 — get_trough_wells cycles through the given wells and returns exactly n.
-/
import Robotools.Model.Plan
namespace Robotools.C19
open Robotools

variable {α : Type}

/-- An empty well list is rejected. -/
theorem rejects_empty (n : Nat) : getTroughWells n ([] : List α) = none := by
  sorry

/-- Exactly `n` wells are returned. -/
theorem length_eq (n : Nat) (ws : List α) (h : ws ≠ []) :
    ∃ l, getTroughWells n ws = some l ∧ l.length = n := by
  sorry

/-- The `i`-th returned well is the `(i mod len)`-th of the given wells. -/
theorem get_mod (n : Nat) (ws : List α) (h : ws ≠ []) (i : Nat) (hi : i < n) :
    ∃ l, getTroughWells n ws = some l ∧ l[i]? = ws[i % ws.length]? := by
  sorry

/-- `n = 0` gives the empty list. -/
theorem zero (ws : List α) (h : ws ≠ []) : getTroughWells 0 ws = some [] := by
  sorry

/-- Array-like arguments are read column-major: the result only depends on `flattenF`. -/
theorem arr_colmajor (n r c : Nat) (l : List α) :
    getTroughWells n (Arr.mat r c l).flattenF
      = getTroughWells n ((List.range c).flatMap fun j => (List.range r).filterMap fun i => l[i * c + j]?) := by
  sorry

example : getTroughWells 5 ["A01", "B01"] = some ["A01", "B01", "A01", "B01", "A01"] := by decide

end Robotools.C19
