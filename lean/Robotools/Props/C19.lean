/-
  C19 — get_trough_wells cycles through the given wells and returns exactly n.
-/
import Robotools.Model.Plan
namespace Robotools.C19
open Robotools

variable {α : Type}

private theorem length_replicate_flatten (k : Nat) (ws : List α) :
    (List.replicate k ws).flatten.length = k * ws.length := by
  induction k with
  | zero => simp
  | succ k ih => simp [List.replicate_succ, ih, Nat.succ_mul, Nat.add_comm]

private theorem getElem?_replicate_flatten (k : Nat) (ws : List α) (i : Nat)
    (hi : i < k * ws.length) :
    (List.replicate k ws).flatten[i]? = ws[i % ws.length]? := by
  induction k generalizing i with
  | zero => simp at hi
  | succ k ih =>
    rw [List.replicate_succ, List.flatten_cons]
    by_cases h : i < ws.length
    · rw [List.getElem?_append_left h, Nat.mod_eq_of_lt h]
    · have h' : ws.length ≤ i := Nat.le_of_not_lt h
      rw [List.getElem?_append_right h', ih, Nat.mod_eq_sub_mod h']
      rw [Nat.succ_mul] at hi
      omega

private theorem eval_eq (n : Nat) (ws : List α) (h : ws ≠ []) :
    getTroughWells n ws = some ((List.replicate (n / ws.length + 1) ws).flatten.take n) := by
  simp [getTroughWells, h]

private theorem lt_div_succ_mul (n len : Nat) (h : 0 < len) : n < (n / len + 1) * len := by
  rw [Nat.mul_comm]
  exact Nat.lt_mul_div_succ n h

/-- An empty well list is rejected. -/
theorem rejects_empty (n : Nat) : getTroughWells n ([] : List α) = none := by
  simp [getTroughWells]

/-- Exactly `n` wells are returned. -/
theorem length_eq (n : Nat) (ws : List α) (h : ws ≠ []) :
    ∃ l, getTroughWells n ws = some l ∧ l.length = n := by
  have hpos : 0 < ws.length := List.length_pos_iff.mpr h
  refine ⟨_, eval_eq n ws h, ?_⟩
  rw [List.length_take, length_replicate_flatten]
  have := lt_div_succ_mul n ws.length hpos
  omega

/-- The `i`-th returned well is the `(i mod len)`-th of the given wells. -/
theorem get_mod (n : Nat) (ws : List α) (h : ws ≠ []) (i : Nat) (hi : i < n) :
    ∃ l, getTroughWells n ws = some l ∧ l[i]? = ws[i % ws.length]? := by
  have hpos : 0 < ws.length := List.length_pos_iff.mpr h
  refine ⟨_, eval_eq n ws h, ?_⟩
  rw [List.getElem?_take_of_lt hi]
  apply getElem?_replicate_flatten
  have := lt_div_succ_mul n ws.length hpos
  omega

/-- `n = 0` gives the empty list. -/
theorem zero (ws : List α) (h : ws ≠ []) : getTroughWells 0 ws = some [] := by
  simp [getTroughWells, h]

/-- Array-like arguments are read column-major: the result only depends on `flattenF`. -/
theorem arr_colmajor (n r c : Nat) (l : List α) :
    getTroughWells n (Arr.mat r c l).flattenF
      = getTroughWells n ((List.range c).flatMap fun j => (List.range r).filterMap fun i => l[i * c + j]?) := by
  rfl

example : getTroughWells 5 ["A01", "B01"] = some ["A01", "B01", "A01", "B01", "A01"] := by decide

end Robotools.C19
