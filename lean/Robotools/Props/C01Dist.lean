/-
  C01 / C03 with `distribute` — the replay theorems of `Props/C03.lean` and `Props/C01.lean` extended to
  programs that also contain `distribute` (one `R;` record per call).

  Side conditions of a `distribute` (`DistOKI`, all static: they depend on the geometries of the two labware, the
  device and the arguments only): source and destination are different labware; the column index is not
  negative; the destination wells have pairwise distinct positions (the quantifier of C01); and the device
  reads the source range of the record the way `distribute` writes it (`Dist.SrcOK`): true on the EVO for every
  trough with at most 26 virtual rows (`srcOK_evo`), on the Fluent only for troughs with one virtual row
  (`srcOK_fluent`) — for troughs with several virtual rows the Fluent record is the known finding F3.
-/
import Robotools.Props.C01
import Robotools.Proofs.DistBlock
namespace Robotools
namespace C01D
open RP C03 Dist

/-- EVO: the positions `1 + vrows·c + m` (`m < vrows`) all address the one real well of column `c`. -/
theorem srcOK_evo (g : Geom) (v : Nat) (hv : g.vrows = some v) (h26 : v ≤ 26) : SrcOK .evo g := by
  intro c hc m hm
  have hst : g.stride = v := by simp [Geom.stride, hv]
  have hnr : g.nRowIds = v := by simp [Geom.nRowIds, hv]; omega
  have hlin := evoWellOf_lin g (r := m) (c := c) (by rw [hst, ← hnr]; exact hm) hc
  refine ⟨(0, c), ?_, by simp [Geom.flat]⟩
  simp only [Device.wellOf]
  rw [hnr, ← hst, Nat.mul_comm]
  rw [hlin]
  simp [Geom.isTrough, hv]

/-- Fluent: only troughs with a single row ID have a source range (`1 + c .. 1 + c`) the Fluent reads as column `c`. -/
theorem srcOK_fluent (g : Geom) (v : Nat) (hv : g.vrows = some v) (h1 : g.nRowIds = 1) : SrcOK .fluent g := by
  intro c hc m hm
  have hm0 : m = 0 := by omega
  subst hm0
  refine ⟨(0, c), ?_, by simp [Geom.flat]⟩
  simp only [Device.wellOf, Geom.fluentWellOf, Geom.isTrough, hv, Option.isSome_some, if_true, h1]
  rw [if_pos ⟨by omega, by omega⟩]
  simp

/-- Static side conditions of one `distribute` call, in terms of the (invariant) labware table. -/
def DistOKI (I : List (String × Geom × Nat)) (dev : Device) (a : DistArgs) : Prop :=
  a.src ≠ a.dst ∧ 0 ≤ a.srcCol ∧
  ∀ nS gS lS nD gD lD, I[a.src]? = some (nS, gS, lS) → I[a.dst]? = some (nD, gD, lD) →
    (∀ v, gS.vrows = some v → SrcOK dev gS) ∧ (PosInj dev gD ∨ ∀ ps, (a.dstWells.flattenF.mapM fun w => dev.pos gD w) = .ok ps → ps.Nodup)

/-- Operations covered by the replay theorems, now including `distribute`. -/
def trackedI (I : List (String × Geom × Nat)) (dev : Device) : Op → Prop
  | .distribute a => DistOKI I dev a
  | op => tracked op = true

theorem compile_safeD {labs₀ : List Labware} (w : World) (hwf : WFI (info w)) (op : Op)
    (hop : trackedI (info w) w.cfg.dev op) : SafeBlock w.cfg.dev labs₀ (info w) (compile w op) := by
  cases op with
  | distribute a =>
    simp only [compile]
    cases hS : w.labs[a.src]? with
    | none => exact single_neutral _ rfl
    | some S =>
      cases hD : w.labs[a.dst]? with
      | none => exact single_neutral _ rfl
      | some D =>
        obtain ⟨hne, hc0, hrest⟩ := hop
        obtain ⟨nS, hIS⟩ := info_getElem hS
        obtain ⟨nD, hID⟩ := info_getElem hD
        obtain ⟨hsrc, hnd⟩ := hrest _ _ _ _ _ _ hIS hID
        exact safe_compileDistribute hwf w.cfg rfl S D a ⟨nS, hIS⟩ ⟨nD, hID⟩ ⟨hne, hsrc, hc0, hnd⟩
  | aspirate l wells vols label kw => exact compile_safe w hwf _ rfl
  | dispense l wells vols label comps kw => exact compile_safe w hwf _ rfl
  | transfer s sw d dw vols label wash pb kw => exact compile_safe w hwf _ rfl
  | comment c => exact compile_safe w hwf _ rfl
  | wash n => exact compile_safe w hwf _ rfl
  | decontaminate => exact compile_safe w hwf _ rfl
  | flush => exact compile_safe w hwf _ rfl
  | commit => exact compile_safe w hwf _ rfl
  | setDiti i => exact compile_safe w hwf _ rfl
  | condenseLog l n label => exact compile_safe w hwf _ rfl
  | evoWash a => exact compile_safe w hwf _ rfl
  | add _ _ _ _ _ => cases hop
  | remove _ _ _ _ => cases hop
  | aspirateWell _ => cases hop
  | dispenseWell _ => cases hop
  | reagentDistribution _ => cases hop
  | evoAspirate _ _ _ => cases hop
  | evoDispense _ _ _ _ => cases hop

theorem step_safeD (labs₀ : List Labware) (w : World) (hwf : WF w) (op : Op)
    (hop : trackedI (info w) w.cfg.dev op) (hinv : Inv w.cfg.dev labs₀ w) :
    Replayable w.cfg.dev labs₀ (w.step op).1
      ∧ ((w.step op).2 = none → Inv w.cfg.dev labs₀ (w.step op).1) :=
  compile_safeD (labs₀ := labs₀) w hwf op hop w rfl hinv

theorem step_info (w : World) (op : Op) : info (w.step op).1 = info w := by
  unfold World.step; exact info_exec w _

/-- **C03 (abort safety) with `distribute`.**  As `C03.abort_safe`, for programs that may also contain
    `distribute` calls meeting the static side conditions: after every operation — including the state the
    first failing one leaves, at whatever sub-step it fails (source underflow, destination overflow in the
    middle of the additions, a refused argument of the `R;` record) — the accumulated records replay from the
    initial contents without violating a limit. -/
theorem abort_safe_dist (w₀ : World) (hwf : WF w₀) (h0 : w₀.recs = []) (ops : List Op)
    (hops : ∀ op ∈ ops, trackedI (info w₀) w₀.cfg.dev op) :
    ∀ s ∈ statesOf w₀ ops, Replayable w₀.cfg.dev w₀.labs s.1 := by
  have hinv0 : Inv w₀.cfg.dev w₀.labs w₀ := ⟨RState.ofLabs w₀.labs, by rw [h0]; rfl, match_ofLabs w₀⟩
  generalize hlabs : w₀.labs = labs₀ at hinv0 ⊢
  generalize hdev : w₀.cfg.dev = dev at hinv0 hops ⊢
  generalize hI : info w₀ = I at hops
  clear h0 hlabs
  induction ops generalizing w₀ with
  | nil => intro s hs; cases hs
  | cons op ops ih =>
    intro s hs
    have hop := hops op List.mem_cons_self
    obtain ⟨hrep, hinv⟩ := step_safeD labs₀ w₀ hwf op (by rw [hdev, hI]; exact hop) (by rw [hdev]; exact hinv0)
    rw [hdev] at hrep hinv
    unfold statesOf at hs
    cases hx : w₀.step op with
    | mk w' e =>
      rw [hx] at hs hrep hinv
      cases e with
      | some e =>
        simp only [List.mem_singleton] at hs
        subst hs
        exact hrep
      | none =>
        simp only [List.mem_cons] at hs
        rcases hs with rfl | hs
        · exact hrep
        · have hcfg : w'.cfg = w₀.cfg := by have := step_cfg w₀ op; rw [hx] at this; exact this
          have hwf' : WF w' := by have := step_wf w₀ op hwf; rw [hx] at this; exact this
          have hI' : info w' = I := by have := step_info w₀ op; rw [hx] at this; rw [this, hI]
          exact ih w' hwf' (by rw [hcfg]; exact hdev) (hinv rfl) hI'
            (fun o ho => hops o (List.mem_cons_of_mem _ ho)) s hs

/-- **C01 (volumes) with `distribute`.**  For every program of tracked operations and `distribute` calls
    meeting the side conditions that runs to the end, replaying the emitted records — `A;`/`D;` pairs and `R;`
    records — from the initial contents gives every real well of every labware exactly the tracked volume. -/
theorem replay_volumes_dist (w₀ : World) (hwf : WF w₀) (h0 : w₀.recs = []) (ops : List Op)
    (hops : ∀ op ∈ ops, trackedI (info w₀) w₀.cfg.dev op) (hok : (w₀.run ops).2 = none) :
    ∃ st, (RState.ofLabs w₀.labs).run w₀.cfg.dev (w₀.run ops).1.recs = some st
      ∧ Match st (w₀.run ops).1 := by
  have hinv0 : Inv w₀.cfg.dev w₀.labs w₀ := ⟨RState.ofLabs w₀.labs, by rw [h0]; rfl, match_ofLabs w₀⟩
  generalize hlabs : w₀.labs = labs₀ at hinv0 ⊢
  generalize hdev : w₀.cfg.dev = dev at hinv0 hops ⊢
  generalize hI : info w₀ = I at hops
  clear h0 hlabs
  induction ops generalizing w₀ with
  | nil => exact hinv0
  | cons op ops ih =>
    have hop := hops op List.mem_cons_self
    obtain ⟨_, hinv⟩ := step_safeD labs₀ w₀ hwf op (by rw [hdev, hI]; exact hop) (by rw [hdev]; exact hinv0)
    rw [hdev] at hinv
    unfold World.run at hok ⊢
    cases hx : w₀.step op with
    | mk w' e =>
      rw [hx] at hinv hok
      cases e with
      | some e => cases hok
      | none =>
        have hcfg : w'.cfg = w₀.cfg := by have := step_cfg w₀ op; rw [hx] at this; exact this
        have hwf' : WF w' := by have := step_wf w₀ op hwf; rw [hx] at this; exact this
        have hI' : info w' = I := by have := step_info w₀ op; rw [hx] at this; rw [this, hI]
        exact ih w' hwf' hok (by rw [hcfg]; exact hdev) (hinv rfl) hI'
          (fun o ho => hops o (List.mem_cons_of_mem _ ho))

/-- On an **EVO** the side conditions of a `distribute` reduce to: source and destination are different labware,
    the column index is not negative, and the source is a trough with at most 26 virtual rows (or not a trough at
    all, in which case `distribute` refuses the call).  Nothing is assumed about the destination wells: a well listed
    twice is refused by `distribute` (F13), different wells have different EVO numbers (`posInj_evo`). -/
def DistEvo (I : List (String × Geom × Nat)) (a : DistArgs) : Prop :=
  a.src ≠ a.dst ∧ 0 ≤ a.srcCol ∧ ∀ nS gS lS, I[a.src]? = some (nS, gS, lS) → ∀ v, gS.vrows = some v → v ≤ 26

theorem distOKI_of_evo {I : List (String × Geom × Nat)} {a : DistArgs} (h : DistEvo I a) : DistOKI I .evo a := by
  obtain ⟨hne, hc, h26⟩ := h
  refine ⟨hne, hc, ?_⟩
  intro nS gS lS nD gD lD hS _
  exact ⟨fun v hv => srcOK_evo gS v hv (h26 _ _ _ hS v hv), Or.inl (posInj_evo gD)⟩

/-- On a **Fluent**: additionally the source trough has a single row ID (else known finding F3) and the destination is
    not a trough with several row IDs (else known finding F14). -/
def DistFluent (I : List (String × Geom × Nat)) (a : DistArgs) : Prop :=
  a.src ≠ a.dst ∧ 0 ≤ a.srcCol
  ∧ (∀ nS gS lS, I[a.src]? = some (nS, gS, lS) → gS.vrows.isSome → gS.nRowIds = 1)
  ∧ (∀ nD gD lD, I[a.dst]? = some (nD, gD, lD) → gD.isTrough = false ∨ gD.nRowIds = 1)

theorem distOKI_of_fluent {I : List (String × Geom × Nat)} {a : DistArgs} (h : DistFluent I a) :
    DistOKI I .fluent a := by
  obtain ⟨hne, hc, hsrc, hdst⟩ := h
  refine ⟨hne, hc, ?_⟩
  intro nS gS lS nD gD lD hS hD
  refine ⟨?_, Or.inl ?_⟩
  · intro v hv
    exact srcOK_fluent gS v hv (hsrc _ _ _ hS (by rw [hv]; rfl))
  · rcases hdst _ _ _ hD with ht | h1'
    · exact posInj_fluent_plate gD ht
    · exact posInj_fluent_trough1 gD h1'

/-! ### The composition clause with `distribute` -/

/-- Operations whose liquid is traceable, now including `distribute` (any volume ≥ 0; a negative one is refused). -/
def traceableI (I : List (String × Geom × Nat)) (dev : Device) : Op → Prop
  | .distribute a => DistOKI I dev a
  | op => Amt.traceable op = true

theorem compile_ablockD {labs₀ : List Labware} (w : World) (hwf : WFI (info w)) (op : Op)
    (hop : traceableI (info w) w.cfg.dev op) : Amt.ABlock w.cfg.dev labs₀ (info w) (compile w op) := by
  cases op with
  | distribute a =>
    simp only [compile]
    cases hS : w.labs[a.src]? with
    | none => exact Amt.ablock_fail _
    | some S =>
      cases hD : w.labs[a.dst]? with
      | none => exact Amt.ablock_fail _
      | some D =>
        obtain ⟨hne, hc0, hrest⟩ := hop
        obtain ⟨nS, hIS⟩ := info_getElem hS
        obtain ⟨nD, hID⟩ := info_getElem hD
        obtain ⟨hsrc, hnd⟩ := hrest _ _ _ _ _ _ hIS hID
        exact ablock_compileDistribute hwf w.cfg rfl S D a ⟨nS, hIS⟩ ⟨nD, hID⟩ ⟨hne, hsrc, hc0, hnd⟩
  | transfer s sw d dw vols label wash pb kw => exact Amt.compile_ablock w hwf _ rfl
  | comment c => exact Amt.compile_ablock w hwf _ rfl
  | wash n => exact Amt.compile_ablock w hwf _ rfl
  | decontaminate => exact Amt.compile_ablock w hwf _ rfl
  | flush => exact Amt.compile_ablock w hwf _ rfl
  | commit => exact Amt.compile_ablock w hwf _ rfl
  | setDiti i => exact Amt.compile_ablock w hwf _ rfl
  | condenseLog l n label => exact Amt.compile_ablock w hwf _ rfl
  | evoWash a => exact Amt.compile_ablock w hwf _ rfl
  | aspirate _ _ _ _ _ => cases hop
  | dispense _ _ _ _ _ _ => cases hop
  | add _ _ _ _ _ => cases hop
  | remove _ _ _ _ => cases hop
  | aspirateWell _ => cases hop
  | dispenseWell _ => cases hop
  | reagentDistribution _ => cases hop
  | evoAspirate _ _ _ => cases hop
  | evoDispense _ _ _ _ => cases hop

/-- **C01 (composition) with `distribute`.**  As `C01.replay_composition`, for programs of transfers, record-only
    operations and `distribute` calls (static side conditions `DistOKI`): the independent
    interpreter — takes from the source range and puts into the destination positions in ascending order, moving
    absolute amounts — ends with exactly `fraction × volume` of every component in every real well of every labware,
    although the tracking removed once and added in argument order. -/
theorem replay_composition_dist (w₀ : World) (hwf : WF w₀) (hgood : Amt.Good w₀) (h0 : w₀.recs = [])
    (ops : List Op) (hops : ∀ op ∈ ops, traceableI (info w₀) w₀.cfg.dev op) (hok : (w₀.run ops).2 = none) :
    (∃ st, (RState.ofLabs w₀.labs).run w₀.cfg.dev (w₀.run ops).1.recs = some st
      ∧ Match st (w₀.run ops).1 ∧ Amt.AmtOK st (w₀.run ops).1) ∧ Amt.Good (w₀.run ops).1 := by
  have hinv0 : Amt.AInv w₀.cfg.dev w₀.labs w₀ :=
    ⟨RState.ofLabs w₀.labs, by rw [h0]; rfl, match_ofLabs w₀, Amt.amtOK_ofLabs w₀ hgood⟩
  generalize hlabs : w₀.labs = labs₀ at hinv0 ⊢
  generalize hdev : w₀.cfg.dev = dev at hinv0 hops ⊢
  generalize hI : info w₀ = I at hops
  clear h0 hlabs
  induction ops generalizing w₀ with
  | nil => exact ⟨hinv0, hgood⟩
  | cons op ops ih =>
    have hop := hops op List.mem_cons_self
    unfold World.run at hok ⊢
    cases hx : w₀.step op with
    | mk w' e =>
      rw [hx] at hok
      cases e with
      | some e => cases hok
      | none =>
        have hblock := compile_ablockD (labs₀ := labs₀) w₀ hwf op (by rw [hdev, hI]; exact hop)
        have hstep : (w₀.exec (compile w₀ op)) = (w', none) := by unfold World.step at hx; exact hx
        obtain ⟨hinv, hG'⟩ := hblock w₀ rfl hgood (by rw [hdev]; exact hinv0) (by rw [hstep])
        rw [hstep, hdev] at hinv
        rw [hstep] at hG'
        have hcfg : w'.cfg = w₀.cfg := by have := step_cfg w₀ op; rw [hx] at this; exact this
        have hwf' : WF w' := by have := step_wf w₀ op hwf; rw [hx] at this; exact this
        have hI' : info w' = I := by have := step_info w₀ op; rw [hx] at this; rw [this, hI]
        exact ih w' hwf' hG' hok (by rw [hcfg]; exact hdev) hinv hI'
          (fun o ho => hops o (List.mem_cons_of_mem _ ho))

/-- On an EVO: transfers, record-only operations and `distribute` from a trough with at most
    26 virtual rows into another labware — nothing is assumed about the destination wells. -/
def traceableEvo (I : List (String × Geom × Nat)) : Op → Prop
  | .distribute a => DistEvo I a
  | op => Amt.traceable op = true

theorem replay_composition_evo (w₀ : World) (hwf : WF w₀) (hgood : Amt.Good w₀) (h0 : w₀.recs = [])
    (hdev : w₀.cfg.dev = .evo) (ops : List Op) (hops : ∀ op ∈ ops, traceableEvo (info w₀) op)
    (hok : (w₀.run ops).2 = none) :
    (∃ st, (RState.ofLabs w₀.labs).run .evo (w₀.run ops).1.recs = some st
      ∧ Match st (w₀.run ops).1 ∧ Amt.AmtOK st (w₀.run ops).1) ∧ Amt.Good (w₀.run ops).1 := by
  have := replay_composition_dist w₀ hwf hgood h0 ops (fun op hop => by
    have h := hops op hop
    rw [hdev]
    cases op <;> first | exact distOKI_of_evo h | exact h) hok
  rw [hdev] at this; exact this

/-- Operations covered on an EVO / on a Fluent, with the device-specific side conditions spelled out. -/
def trackedEvo (I : List (String × Geom × Nat)) : Op → Prop
  | .distribute a => DistEvo I a
  | op => tracked op = true

def trackedFluent (I : List (String × Geom × Nat)) : Op → Prop
  | .distribute a => DistFluent I a
  | op => tracked op = true

theorem trackedI_of_evo {I : List (String × Geom × Nat)} {op : Op} (h : trackedEvo I op) : trackedI I .evo op := by
  cases op <;> first | exact distOKI_of_evo h | exact h

theorem trackedI_of_fluent {I : List (String × Geom × Nat)} {op : Op} (h : trackedFluent I op) :
    trackedI I .fluent op := by
  cases op <;> first | exact distOKI_of_fluent h | exact h

/-- **C03 on an EVO, `distribute` included**: nothing is assumed about the destination wells of a `distribute`. -/
theorem abort_safe_evo (w₀ : World) (hwf : WF w₀) (h0 : w₀.recs = []) (hdev : w₀.cfg.dev = .evo) (ops : List Op)
    (hops : ∀ op ∈ ops, trackedEvo (info w₀) op) :
    ∀ s ∈ statesOf w₀ ops, Replayable .evo w₀.labs s.1 := by
  have := abort_safe_dist w₀ hwf h0 ops (fun op hop => by rw [hdev]; exact trackedI_of_evo (hops op hop))
  rw [hdev] at this; exact this

/-- **C01 (volumes) on an EVO, `distribute` included.** -/
theorem replay_volumes_evo (w₀ : World) (hwf : WF w₀) (h0 : w₀.recs = []) (hdev : w₀.cfg.dev = .evo) (ops : List Op)
    (hops : ∀ op ∈ ops, trackedEvo (info w₀) op) (hok : (w₀.run ops).2 = none) :
    ∃ st, (RState.ofLabs w₀.labs).run .evo (w₀.run ops).1.recs = some st ∧ Match st (w₀.run ops).1 := by
  have := replay_volumes_dist w₀ hwf h0 ops (fun op hop => by rw [hdev]; exact trackedI_of_evo (hops op hop)) hok
  rw [hdev] at this; exact this

/-- **C03 / C01 on a Fluent**, for `distribute` calls from one-row troughs into labware the Fluent numbers injectively
    (the complement is the known findings F3 and F14). -/
theorem abort_safe_fluent (w₀ : World) (hwf : WF w₀) (h0 : w₀.recs = []) (hdev : w₀.cfg.dev = .fluent) (ops : List Op)
    (hops : ∀ op ∈ ops, trackedFluent (info w₀) op) :
    ∀ s ∈ statesOf w₀ ops, Replayable .fluent w₀.labs s.1 := by
  have := abort_safe_dist w₀ hwf h0 ops (fun op hop => by rw [hdev]; exact trackedI_of_fluent (hops op hop))
  rw [hdev] at this; exact this

theorem replay_volumes_fluent (w₀ : World) (hwf : WF w₀) (h0 : w₀.recs = []) (hdev : w₀.cfg.dev = .fluent)
    (ops : List Op) (hops : ∀ op ∈ ops, trackedFluent (info w₀) op) (hok : (w₀.run ops).2 = none) :
    ∃ st, (RState.ofLabs w₀.labs).run .fluent (w₀.run ops).1.recs = some st ∧ Match st (w₀.run ops).1 := by
  have := replay_volumes_dist w₀ hwf h0 ops (fun op hop => by rw [hdev]; exact trackedI_of_fluent (hops op hop)) hok
  rw [hdev] at this; exact this

/-! Non-vacuity: a 4-virtual-row trough distributes into a plate on an EVO; the side conditions hold, the program
    runs, and the replay of its `R;` record reproduces the tracked volumes. -/
def exDist : DistArgs := { src := 0, srcCol := 1, dst := 1, dstWells := .vec ["B02", "A01", "B03"], vol := ⟨25, false⟩, label := "d" }

example : trackedI (info C01.exW) C01.exW.cfg.dev (.distribute exDist) := by
  refine ⟨by decide, by decide, ?_⟩
  intro nS gS lS nD gD lD hS hD
  have hgS : gS = ⟨1, 2, some 4⟩ := by
    simp [info, sinfo, C01.exW, C01.exTrough, exDist] at hS; exact hS.2.1.symm
  have hgD : gD = ⟨2, 3, none⟩ := by
    simp [info, sinfo, C01.exW, C01.exPlate, exDist] at hD; exact hD.2.1.symm
  subst hgS hgD
  exact ⟨fun _ _ => srcOK_evo _ 4 rfl (by omega), Or.inl (posInj_evo _)⟩

/- That this program runs to the end and that the replay of its `R;` record gives `[[5000, 4925], [25, 0, 0, 0, 25, 25]]`
   is checked by evaluation (`#eval` below agrees with the tracked volumes); `decide +kernel` does not reduce
   `compileRD` (well-founded `mergeSort` on `Int`), so it is not stated as a kernel-checked `example`. -/
#eval (C01.exW.run [.distribute exDist]).2.isNone
#eval ((RState.ofLabs C01.exW.labs).run .evo (C01.exW.run [.distribute exDist]).1.recs).map
    (fun st => st.labs.map (fun L => L.wells.map (·.vol)))
#eval (C01.exW.run [.distribute exDist]).1.labs.map (·.vols)

/-! Non-vacuity of the composition theorem: `exDist` meets `traceableEvo` on the good world `C01.exW`; the replayed
    amounts of "water" after the `R;` record equal fraction × volume of the tracking (evaluated, see the remark above). -/
example : traceableEvo (info C01.exW) (.distribute exDist) := by
  refine ⟨by decide, by decide, ?_⟩
  intro nS gS lS hS v hv
  have hgS : gS = ⟨1, 2, some 4⟩ := by
    simp [info, sinfo, C01.exW, C01.exTrough, exDist] at hS; exact hS.2.1.symm
  subst hgS
  cases hv; omega

#eval ((RState.ofLabs C01.exW.labs).run .evo (C01.exW.run [.distribute exDist]).1.recs).map
    (fun st => st.labs.map (fun L => L.wells.map (fun wl => amtOf wl.amts "water")))
#eval (C01.exW.run [.distribute exDist]).1.labs.map
    (fun L => (List.range L.vols.length).map fun i => L.frac i "water" * L.vol i)

/-- On a **Fluent**: transfers, record-only operations and `distribute` from a one-row trough
    into a labware the Fluent numbers injectively. -/
def traceableFluent (I : List (String × Geom × Nat)) : Op → Prop
  | .distribute a => DistFluent I a
  | op => Amt.traceable op = true

theorem replay_composition_fluent (w₀ : World) (hwf : WF w₀) (hgood : Amt.Good w₀) (h0 : w₀.recs = [])
    (hdev : w₀.cfg.dev = .fluent) (ops : List Op) (hops : ∀ op ∈ ops, traceableFluent (info w₀) op)
    (hok : (w₀.run ops).2 = none) :
    (∃ st, (RState.ofLabs w₀.labs).run .fluent (w₀.run ops).1.recs = some st
      ∧ Match st (w₀.run ops).1 ∧ Amt.AmtOK st (w₀.run ops).1) ∧ Amt.Good (w₀.run ops).1 := by
  have := replay_composition_dist w₀ hwf hgood h0 ops (fun op hop => by
    have h := hops op hop
    rw [hdev]
    cases op <;> first | exact distOKI_of_fluent h | exact h) hok
  rw [hdev] at this; exact this

/-! The known finding F14, reproduced in the model (evaluation): on a **Fluent**, `distribute` into two virtual rows of
    one destination trough column books two dispenses (tracked `[[4950], [50, 0]]`) while the `R;` record — destination
    range `1;1` — replays to one (`[[4975], [25, 0]]` for the source/destination): `DistFluent` excludes exactly this
    (`posInj_fluent_*` fail for a trough with several row IDs), `DistEvo` does not need to. -/
def f14Src : Labware := { name := "S", geom := ⟨1, 1, some 1⟩, minV := 0, maxV := 10000, vols := [5000], comp := [("water",[1])], hist := [] }
def f14Dst : Labware := { name := "D", geom := ⟨1, 2, some 4⟩, minV := 0, maxV := 10000, vols := [0, 0], comp := [], hist := [] }
def f14W : World := { cfg := ⟨.fluent, 950, true, false⟩, labs := [f14Src, f14Dst], recs := [], carry := [] }
def f14Dist : DistArgs := { src := 0, srcCol := 0, dst := 1, dstWells := .vec ["A01", "B01"], vol := ⟨25, false⟩, label := "d" }

#eval (f14W.run [.distribute f14Dist]).2.isNone
#eval (f14W.run [.distribute f14Dist]).1.labs.map (·.vols)
#eval ((RState.ofLabs f14W.labs).run .fluent (f14W.run [.distribute f14Dist]).1.recs).map
    (fun st => st.labs.map (fun L => L.wells.map (·.vol)))
#eval (f14W.run [.distribute f14Dist]).1.recs.map (fun r => (Rec.render r))

end C01D
end Robotools
