/-
  C05 — composition tracking equals ideal volumetric mixing and conserves components.

  Specification: absolute amounts `amount L i k = fraction × volume`.  Ideal mixing says: adding a
  volume `v` of a liquid with composition `g` adds `v * g k` of component `k`; removing liquid
  scales all amounts of the well proportionally (fractions unchanged).  The theorems state that
  the fraction representation of robotools (model: `Labware.addStep` / `removeStep`) refines this
  specification exactly (in ℚ), and derive range, normalisation and conservation.
-/
import Robotools.Props.C02
import Robotools.Proofs.MixLemmas
namespace Robotools.C05
open Robotools

/-- Absolute amount of component `k` in real well `i`. -/
def amount (L : Labware) (i : Nat) (k : String) : Rat := L.frac i k * L.vol i

/-- Fraction of component `k` in a composition given as an association list (summing repeats). -/
def compOf (c : Comp) (k : String) : Rat := ((c.filter (fun p => p.1 = k)).map (·.2)).sum

/-- Sum of all fractions of real well `i`. -/
def fracSum (L : Labware) (i : Nat) : Rat := (L.comp.map (fun p => p.2.getD i 0)).sum

/-- Representation invariant of the composition table. -/
structure CompValid (L : Labware) : Prop where
  keys_nodup : (L.comp.map (·.1)).Nodup
  lens : ∀ p ∈ L.comp, p.2.length = L.vols.length
  nonneg : ∀ p ∈ L.comp, ∀ f ∈ p.2, 0 ≤ f

theorem compOf_eq (c : Comp) (k : String) : compOf c k = Mix.csum c k := rfl
theorem fracSum_eq (L : Labware) (i : Nat) : fracSum L i = Mix.colSum L.comp i := rfl

/-- What `addStep` with a composition does to the addressed well, without sign conditions. -/
theorem addStep_core (L L' : Labware) (i : Nat) (v : Rat) (cB : Comp)
    (hL : CompValid L) (hi : i < L.vols.length) (h : L.addStep i v (some cB) = .ok L') :
    L'.vol i = L.vol i + v ∧ (∀ j, j ≠ i → L'.vol j = L.vol j) ∧
    ∀ j k, L'.frac j k =
      if j = i ∧ k ∈ (Labware.combine (L.vol i) (L.wellComp i) v cB).map (·.1)
      then compOf (Labware.combine (L.vol i) (L.wellComp i) v cB) k else L.frac j k := by
  obtain ⟨hv, hc⟩ := Mix.addStep_some h
  refine ⟨?_, ?_, ?_⟩
  · unfold Labware.vol
    rw [hv, getD_set_self _ _ _ _ hi]
    rfl
  · intro j hj
    unfold Labware.vol
    rw [hv, getD_set_ne _ _ _ _ _ hj]
  · intro j k
    have hnd : ((Labware.combine (L.vol i) (L.wellComp i) v cB).map (·.1)).Nodup :=
      Mix.nodup_keys_combine _ _ _ _ (Mix.wc_keys_nodup _ _ hL.keys_nodup)
    rw [Mix.frac_eq, hc, Mix.fracC_setAll _ _ _ _ hL.lens hi hnd]
    rfl

/-- Nothing is mixed (and nothing divided) when the combined volume is zero. -/
theorem combine_zero (vA vB : Rat) (cA cB : Comp) (h : vA + vB = 0) : Labware.combine vA cA vB cB = cA := by
  unfold Labware.combine
  rw [if_pos h]

/-- Ideal mixing of two liquids, component by component (keys of `cA` distinct). -/
theorem combine_spec (vA vB : Rat) (cA cB : Comp) (h : vA + vB ≠ 0) (hA : (cA.map (·.1)).Nodup) (k : String) :
    compOf (Labware.combine vA cA vB cB) k = (compOf cA k * vA + compOf cB k * vB) / (vA + vB)
    ∧ ((Labware.combine vA cA vB cB).map (·.1)).Nodup := by
  exact ⟨Mix.csum_combine vA vB cA cB h k, Mix.nodup_keys_combine vA vB cA cB hA⟩

/-- `get_well_composition` reports exactly the positive fractions. -/
theorem wellComp_spec (L : Labware) (i : Nat) (hL : CompValid L) (k : String) :
    compOf (L.wellComp i) k = L.frac i k ∧ ((L.wellComp i).map (·.1)).Nodup := by
  exact ⟨Mix.csum_wc L.comp i hL.keys_nodup hL.nonneg k, Mix.wc_keys_nodup _ _ hL.keys_nodup⟩

/-- Refinement, addition of a liquid of known composition `cB`: the amount of every component in
    the addressed well grows by exactly `v * cB k`; all other wells keep their fractions. -/
theorem addStep_amount (L L' : Labware) (i : Nat) (v : Rat) (cB : Comp)
    (hL : CompValid L) (hi : i < L.vols.length) (hv : 0 ≤ v) (hvol : 0 ≤ L.vol i)
    (h : L.addStep i v (some cB) = .ok L') :
    (∀ k, amount L' i k = amount L i k + v * compOf cB k)
    ∧ (∀ j k, j ≠ i → L'.frac j k = L.frac j k) := by
  obtain ⟨hvol', _, hfrac⟩ := addStep_core L L' i v cB hL hi h
  refine ⟨?_, ?_⟩
  · intro k
    unfold amount
    rw [hvol']
    by_cases h0 : L.vol i + v = 0
    · have h1 : L.vol i = 0 := by linarith
      have h2 : v = 0 := by linarith
      rw [h1, h2]; simp
    · rw [hfrac i k]
      have hw : compOf (L.wellComp i) k = L.frac i k := (wellComp_spec L i hL k).1
      by_cases hk : k ∈ (Labware.combine (L.vol i) (L.wellComp i) v cB).map (·.1)
      · rw [if_pos ⟨rfl, hk⟩, (combine_spec _ _ _ cB h0 (wellComp_spec L i hL k).2 k).1, hw]
        field_simp
      · rw [if_neg (fun hh => hk hh.2)]
        rw [Mix.mem_keys_combine _ _ _ _ h0] at hk
        have hk1 : compOf (L.wellComp i) k = 0 := Mix.csum_eq_zero _ _ (fun hh => hk (Or.inl hh))
        have hk2 : compOf cB k = 0 := Mix.csum_eq_zero _ _ (fun hh => hk (Or.inr hh))
        rw [← hw, hk1, hk2]; ring
  · intro j k hj
    rw [hfrac j k, if_neg (fun hh => hj hh.1)]

/-- The representation invariant is preserved (incoming fractions non-negative). -/
theorem addStep_compValid (L L' : Labware) (i : Nat) (v : Rat) (c : Option Comp)
    (hL : CompValid L) (hv : 0 ≤ v) (hvol : 0 ≤ L.vol i) (hc : ∀ cB, c = some cB → ∀ p ∈ cB, 0 ≤ p.2)
    (h : L.addStep i v c = .ok L') : CompValid L' := by
  have hlenv : L'.vols.length = L.vols.length := by
    rw [(Labware.addStep_fields h).2.1, List.length_set]
  cases c with
  | none =>
    obtain ⟨_, hc'⟩ := Mix.addStep_none h
    exact ⟨by rw [hc']; exact hL.keys_nodup, by rw [hc', hlenv]; exact hL.lens,
      by rw [hc']; exact hL.nonneg⟩
  | some cB =>
    obtain ⟨_, hc'⟩ := Mix.addStep_some h
    refine ⟨?_, ?_, ?_⟩
    · rw [hc']; exact Mix.nodup_keys_setAll _ _ _ _ hL.keys_nodup
    · rw [hc', hlenv]; exact Mix.lens_setAll _ _ _ _ hL.lens
    · rw [hc']
      apply Mix.nonneg_setAll _ _ _ _ _ hL.nonneg
      apply Mix.nonneg_combine _ _ _ _ _ (hc cB rfl) hvol hv
      intro p hp
      exact le_of_lt (Mix.wc_pos _ _ p hp)

/-- Removing liquid never changes a well's composition. -/
theorem removeStep_frac (L L' : Labware) (i : Nat) (v : Rat) (h : L.removeStep i v = .ok L') :
    L'.comp = L.comp ∧ (∀ j k, L'.frac j k = L.frac j k) := by
  have hc : L'.comp = L.comp := (Labware.removeStep_fields h).2.2.2.2.2.2.2
  refine ⟨hc, fun j k => ?_⟩
  unfold Labware.frac
  rw [hc]

theorem removeStep_amount (L L' : Labware) (i : Nat) (v : Rat) (hi : i < L.vols.length)
    (h : L.removeStep i v = .ok L') (k : String) :
    amount L' i k = L.frac i k * (L.vol i - v) := by
  unfold amount
  rw [(removeStep_frac L L' i v h).2 i k]
  congr 1
  unfold Labware.vol
  rw [(Labware.removeStep_fields h).2.1, getD_set_self _ _ _ _ hi]
  rfl

set_option linter.unusedVariables false in
/-- Fractions sum to 1 in every non-empty well: preserved by adding a normalised liquid. -/
theorem addStep_fracSum (L L' : Labware) (i : Nat) (v : Rat) (cB : Comp)
    (hL : CompValid L) (hi : i < L.vols.length) (hv : 0 ≤ v) (hvol : 0 ≤ L.vol i)
    (hB : (cB.map (·.2)).sum = 1) (hBn : ∀ p ∈ cB, 0 ≤ p.2)
    (hsum : 0 < L.vol i → fracSum L i = 1) (hpos : 0 < L.vol i + v)
    (h : L.addStep i v (some cB) = .ok L') : fracSum L' i = 1 := by
  obtain ⟨_, hc⟩ := Mix.addStep_some h
  have hndw : ((L.wellComp i).map (·.1)).Nodup := Mix.wc_keys_nodup _ _ hL.keys_nodup
  have hnd : ((Labware.combine (L.vol i) (L.wellComp i) v cB).map (·.1)).Nodup :=
    Mix.nodup_keys_combine _ _ _ _ hndw
  have hne : L.vol i + v ≠ 0 := ne_of_gt hpos
  rw [fracSum_eq, hc, Mix.colSum_setAll _ _ _ _ hL.lens hi hnd]
  have h1 : ((Labware.combine (L.vol i) (L.wellComp i) v cB).map (·.1)).map (Mix.fracC L.comp i)
      = ((Labware.combine (L.vol i) (L.wellComp i) v cB).map (·.1)).map (Mix.csum (L.wellComp i)) := by
    apply List.map_congr_left
    intro k _
    exact (Mix.csum_wc L.comp i hL.keys_nodup hL.nonneg k).symm
  rw [h1, Mix.sum_csum_keys _ _ hnd (fun k hk => Mix.keys_subset_combine _ _ _ _ k hk),
    Mix.total_combine _ _ _ _ hne]
  have h2 : Mix.total (L.wellComp i) = Mix.colSum L.comp i := Mix.total_wc L.comp i hL.nonneg
  have h3 : Mix.total cB = 1 := hB
  have hs : 0 < L.vol i → Mix.colSum L.comp i = 1 := hsum
  rw [h2, h3, sub_self, zero_add]
  rcases lt_or_eq_of_le hvol with hp | hz
  · rw [hs hp]
    field_simp
  · rw [← hz] at hne ⊢
    field_simp
    ring

/-- Fractions lie within [0, 1] whenever they are non-negative and sum to 1. -/
theorem frac_range (L : Labware) (i : Nat) (k : String) (hL : CompValid L) (hsum : fracSum L i = 1) :
    0 ≤ L.frac i k ∧ L.frac i k ≤ 1 := by
  rw [Mix.frac_eq]
  refine ⟨Mix.fracC_nonneg _ _ _ hL.nonneg, ?_⟩
  rw [← hsum, fracSum_eq]
  exact Mix.fracC_le_colSum _ _ _ hL.nonneg

theorem compValid_removeStep (L L' : Labware) (i : Nat) (v : Rat) (hL : CompValid L)
    (h : L.removeStep i v = .ok L') :
    CompValid L' ∧ L'.vols.length = L.vols.length ∧ (∀ j, j ≠ i → L'.vol j = L.vol j) := by
  have hf := Labware.removeStep_fields h
  have hc : L'.comp = L.comp := hf.2.2.2.2.2.2.2
  have hlen : L'.vols.length = L.vols.length := by rw [hf.2.1, List.length_set]
  refine ⟨⟨by rw [hc]; exact hL.keys_nodup, by rw [hc, hlen]; exact hL.lens,
    by rw [hc]; exact hL.nonneg⟩, hlen, ?_⟩
  intro j hj
  unfold Labware.vol
  rw [hf.2.1, getD_set_ne _ _ _ _ _ hj]

theorem vol_nonneg (L : Labware) (j : Nat) (h0 : ∀ x ∈ L.vols, 0 ≤ x) : 0 ≤ L.vol j :=
  Mix.getD_nonneg _ _ h0

/-- The three micro-operations of one transfer step, run to completion. -/
theorem exec3 (w w' : World) (s i d j : Nat) (v : Rat) (S : Labware)
    (hS : w.labs[s]? = some S)
    (h : w.exec [.rm s i v, .loadComp s i, .ad d j v .carry] = (w', none)) :
    ∃ S1 D1 D2, S.removeStep i v = .ok S1 ∧ (w.labs.set s S1)[d]? = some D1 ∧
      D1.addStep j v (some (S1.wellComp i)) = .ok D2 ∧ w'.labs = (w.labs.set s S1).set d D2 := by
  have hs : s < w.labs.length := (List.getElem?_eq_some_iff.1 hS).1
  cases h1 : S.removeStep i v with
  | error e =>
    have hm : w.micro (.rm s i v) = .error e := by simp [World.micro, hS, h1]
    rw [World.exec_cons_error _ hm] at h
    cases h
  | ok S1 =>
    have hm1 : w.micro (.rm s i v) = .ok (w.setLab s S1) := by simp [World.micro, hS, h1]
    rw [World.exec_cons_ok _ hm1] at h
    have hs1 : (w.setLab s S1).labs[s]? = some S1 := by
      simp [World.setLab, List.getElem?_set_self hs]
    have hm2 : (w.setLab s S1).micro (.loadComp s i)
        = .ok { w.setLab s S1 with carry := S1.wellComp i } := by
      simp [World.micro, hs1]
    rw [World.exec_cons_ok _ hm2] at h
    cases h3 : (w.labs.set s S1)[d]? with
    | none =>
      have hm : ({ w.setLab s S1 with carry := S1.wellComp i } : World).micro (.ad d j v .carry)
          = .error .reject := by
        simp [World.micro, World.setLab, h3]
      rw [World.exec_cons_error _ hm] at h
      cases h
    | some D1 =>
      cases h4 : D1.addStep j v (some (S1.wellComp i)) with
      | error e =>
        have hm : ({ w.setLab s S1 with carry := S1.wellComp i } : World).micro (.ad d j v .carry)
            = .error e := by
          simp [World.micro, World.setLab, h3, h4]
        rw [World.exec_cons_error _ hm] at h
        cases h
      | ok D2 =>
        have hm : ({ w.setLab s S1 with carry := S1.wellComp i } : World).micro (.ad d j v .carry)
            = .ok (({ w.setLab s S1 with carry := S1.wellComp i } : World).setLab d D2) := by
          simp [World.micro, World.setLab, h3, h4]
        rw [World.exec_cons_ok _ hm, World.exec_nil] at h
        cases h
        exact ⟨S1, D1, D2, rfl, h3, h4, rfl⟩

/-- Conservation by one transfer step (aspirate `v` from well `i` of labware `s`, dispense it with
    the source's composition into well `j` of labware `d`): the total amount of every component
    over the two wells is unchanged. -/
theorem pair_conserves (w w' : World) (s i d j : Nat) (v : Rat) (S D : Labware) (k : String)
    (hS : w.labs[s]? = some S) (hD : w.labs[d]? = some D)
    (hSv : CompValid S) (hDv : CompValid D) (hi : i < S.vols.length) (hj : j < D.vols.length)
    (hv : 0 ≤ v) (hS0 : ∀ x ∈ S.vols, 0 ≤ x) (hD0 : ∀ x ∈ D.vols, 0 ≤ x) (hne : (s, i) ≠ (d, j))
    (h : w.exec [.rm s i v, .loadComp s i, .ad d j v .carry] = (w', none)) :
    ∃ S' D', w'.labs[s]? = some S' ∧ w'.labs[d]? = some D'
      ∧ amount S' i k + amount D' j k = amount S i k + amount D j k := by
  obtain ⟨S1, D1, D2, hrm, hD1, had, hlabs⟩ := exec3 w w' s i d j v S hS h
  have hs : s < w.labs.length := (List.getElem?_eq_some_iff.1 hS).1
  have hd : d < w.labs.length := (List.getElem?_eq_some_iff.1 hD).1
  obtain ⟨hS1v, hS1len, hS1vol⟩ := compValid_removeStep S S1 i v hSv hrm
  have hS1i : amount S1 i k = S.frac i k * (S.vol i - v) := removeStep_amount S S1 i v hi hrm k
  have hS1frac : ∀ j k, S1.frac j k = S.frac j k := (removeStep_frac S S1 i v hrm).2
  have hcarry : compOf (S1.wellComp i) k = S.frac i k := by
    rw [(wellComp_spec S1 i hS1v k).1, hS1frac]
  by_cases hsd : s = d
  · subst hsd
    have hDS : D = S := by rw [hS] at hD; exact (Option.some.inj hD).symm
    subst hDS
    have hij : j ≠ i := fun e => hne (by rw [e])
    rw [List.getElem?_set_self hs] at hD1
    have hD1' : D1 = S1 := (Option.some.inj hD1).symm
    subst hD1'
    have hj1 : j < D1.vols.length := by rw [hS1len]; exact hj
    have hvj : 0 ≤ D1.vol j := by rw [hS1vol j hij]; exact vol_nonneg D j hD0
    obtain ⟨ham, hfr⟩ := addStep_amount D1 D2 j v (D1.wellComp i) hS1v hj1 hv hvj had
    obtain ⟨_, hvo, _⟩ := addStep_core D1 D2 j v (D1.wellComp i) hS1v hj1 had
    refine ⟨D2, D2, ?_, ?_, ?_⟩
    · rw [hlabs, List.getElem?_set_self (by rw [List.length_set]; exact hs)]
    · rw [hlabs, List.getElem?_set_self (by rw [List.length_set]; exact hs)]
    · have e1 : amount D2 i k = amount D1 i k := by
        unfold amount
        rw [hfr i k (Ne.symm hij), hvo i (Ne.symm hij)]
      have e2 : amount D1 j k = amount D j k := by
        unfold amount
        rw [hS1frac, hS1vol j hij]
      rw [e1, ham k, hcarry, e2, hS1i]
      unfold amount
      ring
  · have hD1' : D1 = D := by
      rw [List.getElem?_set_ne hsd, hD] at hD1
      exact (Option.some.inj hD1).symm
    subst hD1'
    have hvj : 0 ≤ D1.vol j := vol_nonneg D1 j hD0
    obtain ⟨ham, _⟩ := addStep_amount D1 D2 j v (S1.wellComp i) hDv hj hv hvj had
    refine ⟨S1, D2, ?_, ?_, ?_⟩
    · rw [hlabs, List.getElem?_set_ne (Ne.symm hsd), List.getElem?_set_self hs]
    · rw [hlabs, List.getElem?_set_self (by rw [List.length_set]; exact hd)]
    · rw [ham k, hcarry, hS1i]
      unfold amount
      ring

set_option linter.unusedVariables false in
/-- Mixing within one well (source = destination well) changes nothing. -/
theorem pair_same_well (w w' : World) (s i : Nat) (v : Rat) (S : Labware) (k : String)
    (hS : w.labs[s]? = some S) (hSv : CompValid S) (hi : i < S.vols.length) (hv : 0 ≤ v) (hS0 : ∀ x ∈ S.vols, 0 ≤ x)
    (h : w.exec [.rm s i v, .loadComp s i, .ad s i v .carry] = (w', none)) :
    ∃ S', w'.labs[s]? = some S' ∧ S'.vol i = S.vol i ∧ amount S' i k = amount S i k := by
  obtain ⟨S1, D1, D2, hrm, hD1, had, hlabs⟩ := exec3 w w' s i s i v S hS h
  have hs : s < w.labs.length := (List.getElem?_eq_some_iff.1 hS).1
  obtain ⟨hS1v, hS1len, _⟩ := compValid_removeStep S S1 i v hSv hrm
  have hS1frac : ∀ j k, S1.frac j k = S.frac j k := (removeStep_frac S S1 i v hrm).2
  have hS1vol : S1.vol i = S.vol i - v := by
    unfold Labware.vol
    rw [(Labware.removeStep_fields hrm).2.1, getD_set_self _ _ _ _ hi]
    rfl
  rw [List.getElem?_set_self hs] at hD1
  have hD1' : D1 = S1 := (Option.some.inj hD1).symm
  subst hD1'
  have hi1 : i < D1.vols.length := by rw [hS1len]; exact hi
  obtain ⟨hvo, _, hfr⟩ := addStep_core D1 D2 i v (D1.wellComp i) hS1v hi1 had
  have hvol2 : D2.vol i = S.vol i := by rw [hvo, hS1vol]; ring
  refine ⟨D2, ?_, hvol2, ?_⟩
  · rw [hlabs, List.getElem?_set_self (by rw [List.length_set]; exact hs)]
  · unfold amount
    rw [hvol2]
    by_cases h0 : S.vol i = 0
    · rw [h0]; simp
    · congr 1
      have hne : D1.vol i + v ≠ 0 := by rw [hS1vol]; intro e; apply h0; linarith
      have hw : compOf (D1.wellComp i) k = S.frac i k := by
        rw [(wellComp_spec D1 i hS1v k).1, hS1frac]
      rw [hfr i k]
      split
      · rw [(combine_spec _ _ _ _ hne (wellComp_spec D1 i hS1v k).2 k).1, hw]
        field_simp
      · exact hS1frac i k

example : Labware.combine 100 [("a", 1)] 100 [("b", 1)] = [("a", 1/2), ("b", 1/2)] := by decide +kernel
example : Labware.combine 0 [] 0 [("b", 1)] = [] := by decide +kernel

end Robotools.C05
