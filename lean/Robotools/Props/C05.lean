/-
  C05 — composition tracking equals ideal volumetric mixing and conserves components.

  Specification: absolute amounts `amount L i k = fraction × volume`.  Ideal mixing says: adding a
  volume `v` of a liquid with composition `g` adds `v * g k` of component `k`; removing liquid
  scales all amounts of the well proportionally (fractions unchanged).  The theorems state that
  the fraction representation of robotools (model: `Labware.addStep` / `removeStep`) refines this
  specification exactly (in ℚ), and derive range, normalisation and conservation.
-/
import Robotools.Props.C02
namespace Robotools.C05
open Robotools

/-- Absolute amount of component `k` in real well `i`. -/
def amount (L : Labware) (i : Nat) (k : String) : Rat := L.frac i k * L.vol i

/-- Fraction of component `k` in a composition given as an association list (summing repeats). -/
def compOf (c : Comp) (k : String) : Rat := ((c.filter (fun p => p.1 = k)).map (·.2)).sum

/-- Sum of all fractions of real well `i`. -/
def fracSum (L : Labware) (i : Nat) : Rat := (L.comp.map (fun p => p.2.getD i 0)).sum

/-- Representation invariant of the composition table. -/
structure CompValid (L : Labware) : Prop where
  keys_nodup : (L.comp.map (·.1)).Nodup
  lens : ∀ p ∈ L.comp, p.2.length = L.vols.length
  nonneg : ∀ p ∈ L.comp, ∀ f ∈ p.2, 0 ≤ f

/-- Nothing is mixed (and nothing divided) when the combined volume is zero. -/
theorem combine_zero (vA vB : Rat) (cA cB : Comp) (h : vA + vB = 0) : Labware.combine vA cA vB cB = cA := by
  sorry

/-- Ideal mixing of two liquids, component by component (keys of `cA` distinct). -/
theorem combine_spec (vA vB : Rat) (cA cB : Comp) (h : vA + vB ≠ 0) (hA : (cA.map (·.1)).Nodup) (k : String) :
    compOf (Labware.combine vA cA vB cB) k = (compOf cA k * vA + compOf cB k * vB) / (vA + vB)
    ∧ ((Labware.combine vA cA vB cB).map (·.1)).Nodup := by
  sorry

/-- `get_well_composition` reports exactly the positive fractions. -/
theorem wellComp_spec (L : Labware) (i : Nat) (hL : CompValid L) (k : String) :
    compOf (L.wellComp i) k = L.frac i k ∧ ((L.wellComp i).map (·.1)).Nodup := by
  sorry

/-- Refinement, addition of a liquid of known composition `cB`: the amount of every component in
    the addressed well grows by exactly `v * cB k`; all other wells keep their fractions. -/
theorem addStep_amount (L L' : Labware) (i : Nat) (v : Rat) (cB : Comp)
    (hL : CompValid L) (hi : i < L.vols.length) (hv : 0 ≤ v) (hvol : 0 ≤ L.vol i)
    (h : L.addStep i v (some cB) = .ok L') :
    (∀ k, amount L' i k = amount L i k + v * compOf cB k)
    ∧ (∀ j k, j ≠ i → L'.frac j k = L.frac j k) := by
  sorry

/-- The representation invariant is preserved (incoming fractions non-negative). -/
theorem addStep_compValid (L L' : Labware) (i : Nat) (v : Rat) (c : Option Comp)
    (hL : CompValid L) (hv : 0 ≤ v) (hvol : 0 ≤ L.vol i) (hc : ∀ cB, c = some cB → ∀ p ∈ cB, 0 ≤ p.2)
    (h : L.addStep i v c = .ok L') : CompValid L' := by
  sorry

/-- Removing liquid never changes a well's composition. -/
theorem removeStep_frac (L L' : Labware) (i : Nat) (v : Rat) (h : L.removeStep i v = .ok L') :
    L'.comp = L.comp ∧ (∀ j k, L'.frac j k = L.frac j k) := by
  sorry

theorem removeStep_amount (L L' : Labware) (i : Nat) (v : Rat) (hi : i < L.vols.length)
    (h : L.removeStep i v = .ok L') (k : String) :
    amount L' i k = L.frac i k * (L.vol i - v) := by
  sorry

/-- Fractions sum to 1 in every non-empty well: preserved by adding a normalised liquid. -/
theorem addStep_fracSum (L L' : Labware) (i : Nat) (v : Rat) (cB : Comp)
    (hL : CompValid L) (hi : i < L.vols.length) (hv : 0 ≤ v) (hvol : 0 ≤ L.vol i)
    (hB : (cB.map (·.2)).sum = 1) (hBn : ∀ p ∈ cB, 0 ≤ p.2)
    (hsum : 0 < L.vol i → fracSum L i = 1) (hpos : 0 < L.vol i + v)
    (h : L.addStep i v (some cB) = .ok L') : fracSum L' i = 1 := by
  sorry

/-- Fractions lie within [0, 1] whenever they are non-negative and sum to 1. -/
theorem frac_range (L : Labware) (i : Nat) (k : String) (hL : CompValid L) (hsum : fracSum L i = 1) :
    0 ≤ L.frac i k ∧ L.frac i k ≤ 1 := by
  sorry

/-- Conservation by one transfer step (aspirate `v` from well `i` of labware `s`, dispense it with
    the source's composition into well `j` of labware `d`): the total amount of every component
    over the two wells is unchanged. -/
theorem pair_conserves (w w' : World) (s i d j : Nat) (v : Rat) (S D : Labware) (k : String)
    (hS : w.labs[s]? = some S) (hD : w.labs[d]? = some D)
    (hSv : CompValid S) (hDv : CompValid D) (hi : i < S.vols.length) (hj : j < D.vols.length)
    (hv : 0 ≤ v) (hS0 : ∀ x ∈ S.vols, 0 ≤ x) (hD0 : ∀ x ∈ D.vols, 0 ≤ x) (hne : (s, i) ≠ (d, j))
    (h : w.exec [.rm s i v, .loadComp s i, .ad d j v .carry] = (w', none)) :
    ∃ S' D', w'.labs[s]? = some S' ∧ w'.labs[d]? = some D'
      ∧ amount S' i k + amount D' j k = amount S i k + amount D j k := by
  sorry

/-- Mixing within one well (source = destination well) changes nothing. -/
theorem pair_same_well (w w' : World) (s i : Nat) (v : Rat) (S : Labware) (k : String)
    (hS : w.labs[s]? = some S) (hSv : CompValid S) (hi : i < S.vols.length) (hv : 0 ≤ v) (hS0 : ∀ x ∈ S.vols, 0 ≤ x)
    (h : w.exec [.rm s i v, .loadComp s i, .ad s i v .carry] = (w', none)) :
    ∃ S', w'.labs[s]? = some S' ∧ S'.vol i = S.vol i ∧ amount S' i k = amount S i k := by
  sorry

example : Labware.combine 100 [("a", 1)] 100 [("b", 1)] = [("a", 1/2), ("b", 1/2)] := by decide +kernel
example : Labware.combine 0 [] 0 [("b", 1)] = [] := by decide +kernel

end Robotools.C05
