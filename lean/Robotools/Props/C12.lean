/-
  C12 — the EVO well-selection string is a faithful, decodable bitmap.
-/
import Robotools.Model.EvoCmd
import Robotools.Proofs.SelectionLemmas
namespace Robotools.C12
open Robotools

/-- The selection string decodes (EVOware rule: two hex digits columns, two hex digits rows,
    then seven wells per character, column-major, least significant bit first, offset 48) to
    exactly the labware dimensions and the selected wells. -/
theorem decode_encode (rows cols : Nat) (bits : List Bool)
    (hr : rows ≤ 255) (hc : cols ≤ 255) (hlen : bits.length = rows * cols) :
    decodeSelection (encodeSelection rows cols bits) = some (rows, cols, bits) := by
  exact decodeSelection_encodeSelection rows cols bits hr hc hlen

/-- Distinct selections (of the same labware) give distinct strings. -/
theorem encode_inj (rows cols : Nat) (b₁ b₂ : List Bool)
    (hr : rows ≤ 255) (hc : cols ≤ 255) (h₁ : b₁.length = rows * cols) (h₂ : b₂.length = rows * cols)
    (h : encodeSelection rows cols b₁ = encodeSelection rows cols b₂) : b₁ = b₂ := by
  have d₁ := decodeSelection_encodeSelection rows cols b₁ hr hc h₁
  have d₂ := decodeSelection_encodeSelection rows cols b₂ hr hc h₂
  rw [h, d₂] at d₁
  simpa using d₁.symm

/-- The string has 4 + ⌈R*C/7⌉ characters. -/
theorem encode_length (rows cols : Nat) (bits : List Bool)
    (hr : rows ≤ 255) (hc : cols ≤ 255) (hlen : bits.length = rows * cols) :
    (encodeSelection rows cols bits).length = 4 + (rows * cols + 6) / 7 := by
  rw [encodeSelection_length rows cols bits hr hc, hlen]

/-- Unused padding bits are zero: every bitmap character encodes a value below 2^(number of wells
    it covers), in particular the last one. -/
theorem padding_zero (bits : List Bool) (i : Nat) (c : Char) (h : (encodeBits bits)[i]? = some c) :
    c.toNat - 48 < 2 ^ (min 7 (bits.length - 7 * i)) ∧ 48 ≤ c.toNat := by
  obtain ⟨hi, hc⟩ := encodeBits_getElem? bits i c h
  subst hc
  have hlt := bitsToNat_lt ((bits.drop (7 * i)).take 7)
  have hlen : ((bits.drop (7 * i)).take 7).length = min 7 (bits.length - 7 * i) := by
    simp [List.length_take, List.length_drop]
  rw [hlen] at hlt
  rw [chunk_toNat]
  exact ⟨by omega, by omega⟩

/-- `selectionBits` marks exactly the selected wells, read column-major. -/
theorem selectionBits_spec (rows cols : Nat) (sel : List (Nat × Nat)) (x y : Nat) (hx : x < cols) (hy : y < rows) :
    (selectionBits rows cols sel)[x * rows + y]? = some (sel.contains (y, x)) := by
  exact selectionBits_getElem? rows cols sel x y hx hy

theorem selectionBits_length (rows cols : Nat) (sel : List (Nat × Nat)) :
    (selectionBits rows cols sel).length = rows * cols := by
  exact selectionBits_length' rows cols sel

example : String.ofList (encodeSelection 8 12 (selectionBits 8 12 [(0, 0), (1, 0)])) = "0C0830000000000000" := by
  decide +kernel

end Robotools.C12
