/-
  C09 — every record is well-formed and carries exactly the arguments given.

  `parseRec` (Model/Parse.lean) is an independent reader of the worklist format: it splits a line at
  the semicolons and reads the fields by position.  The theorems say
  * every record any operation appends is admitted by the grammar (`Rec.WF`), for every program;
  * the reader returns exactly the stored fields of every such record (`parse_render`), the volume as
    the two-decimal rounding, with a fixed number of fields per record type;
  * the stored fields of `aspirate_well` / `dispense_well` / `reagent_distribution` are exactly the
    arguments supplied (`*_carries_args`), the multi-dispense count being the adapted one (C06) and the
    exclusion list sorted;
  * a call that is not accepted appends nothing and changes nothing (`rejected_appends_nothing`), and
    acceptance is characterised exactly (`prepareAD_accepts_iff`): the unrepresentable classes of the
    statement are precisely the rejected ones;
  * the DiTi-switch and decontamination guards.
  EVOware script commands (`B;Aspirate(…`) are the subject of C13.
-/
import Robotools.Model.World
import Robotools.Model.Parse
import Robotools.Proofs.ParseLemmas
import Robotools.Proofs.WfLemmas
import Robotools.Proofs.Templates
namespace Robotools.C09
open Robotools

/-! ## The grammar: every well-formed record decodes to exactly its fields -/

/-- Decoding the rendered line of a grammar-admitted record returns exactly its fields. -/
theorem parse_render (r : Rec) (h : r.WF) (he : r.isEvo = false) :
    parseRec r.renderChars = r.toParsed := by
  cases r with
  | asp f => exact parse_render_asp f h.1
  | disp f => exact parse_render_disp f h.1
  | rd f => exact parse_render_rd f h.1
  | wash n => exact parse_render_wash n
  | washDiti => exact parse_render_simple.1
  | decon => exact parse_render_simple.2.1
  | flush => exact parse_render_simple.2.2.1
  | brk => exact parse_render_simple.2.2.2
  | setDiti i => exact parse_render_setDiti i
  | comment s => exact parse_render_comment s
  | evo s => cases he

/-- Fixed number of semicolon-separated fields: 11 for `A;`/`D;`. -/
theorem field_count_ad (f : ADFields) (h : f.WF) :
    ((Rec.asp f).renderChars.splitOn ';').length = 11 ∧ ((Rec.disp f).renderChars.splitOn ';').length = 11 := by
  constructor
  · show ((joinSemi (f.fields 'A')).splitOn ';').length = 11
    rw [splitOn_AD 'A' (by decide) f h.1]; rfl
  · show ((joinSemi (f.fields 'D')).splitOn ';').length = 11
    rw [splitOn_AD 'D' (by decide) f h.1]; rfl

/-- 16 fields plus one per excluded well for `R;`. -/
theorem field_count_rd (f : RFields) (h : f.WF) :
    ((Rec.rd f).renderChars.splitOn ';').length = 16 + f.excluded.length := by
  show ((joinSemi f.fields).splitOn ';').length = _
  rw [splitOn_R f h.1]
  simp [RFields.fields]
  omega

/-! ## Every record of every program is admitted by the grammar -/

/-- One operation (also a failing one) only appends grammar-admitted records. -/
theorem step_wf (w : World) (op : Op) (h : ∀ r ∈ w.recs, r.WF) : ∀ r ∈ (w.step op).1.recs, r.WF :=
  WF.recs_wf_exec w _ (WF.wf_compile w op) h

/-- … hence every program, from an empty worklist, whatever it does and wherever it stops. -/
theorem run_wf (w : World) (ops : List Op) (h : ∀ r ∈ w.recs, r.WF) : ∀ r ∈ (w.run ops).1.recs, r.WF := by
  induction ops generalizing w with
  | nil => exact h
  | cons op ops ih =>
    simp only [World.run]
    have hs := step_wf w op h
    cases hstep : w.step op with
    | mk w' e =>
      rw [hstep] at hs
      cases e with
      | none => exact ih w' hs
      | some e => exact hs

/-- Every record of every program, read back by the independent parser, returns its fields. -/
theorem every_record_decodes (w : World) (ops : List Op) (h0 : w.recs = []) :
    ∀ r ∈ (w.run ops).1.recs, r.isEvo = false → parseRec r.renderChars = r.toParsed := by
  intro r hr he
  exact parse_render r (run_wf w ops (by rw [h0]; intro r hr; cases hr) r hr) he

/-! ## Acceptance is exactly representability -/

/-- The arguments of an `A;`/`D;` record can be represented. -/
def Representable (a : ADArgs) (maxVolume : Rat) : Prop :=
  (a.rackLabel.length ≤ 32 ∧ ';' ∉ a.rackLabel.toList) ∧ a.posBad = false ∧ 0 ≤ a.position
    ∧ 0 ≤ a.vol ∧ a.vol ≤ (Spec.maxRecordVolume : Rat) ∧ a.vol ≤ maxVolume
    ∧ ';' ∉ a.liquidClass.toList
    ∧ (a.rackId.length ≤ 32 ∧ ';' ∉ a.rackId.toList) ∧ (a.tubeId.length ≤ 32 ∧ ';' ∉ a.tubeId.toList)
    ∧ (a.rackType.length ≤ 32 ∧ ';' ∉ a.rackType.toList)
    ∧ (a.forcedRackType.length ≤ 32 ∧ ';' ∉ a.forcedRackType.toList)
    ∧ ∃ t, tipMask a.tip = .ok t

/-- `prepare_aspirate_dispense_parameters` accepts exactly the representable argument tuples, and
    what it returns is the argument tuple itself (position as given, tip as its mask). -/
theorem prepareAD_accepts_iff (a : ADArgs) (M : Rat) (f : ADFields) :
    prepareAD a (some M) = .ok f ↔
      Representable a M ∧ tipMask a.tip = .ok f.tip
        ∧ f = { rackLabel := a.rackLabel, rackId := a.rackId, rackType := a.rackType,
                position := a.position.toNat, tubeId := a.tubeId, vol := a.vol,
                liquidClass := a.liquidClass, tip := f.tip, forcedRackType := a.forcedRackType } := by
  constructor
  · intro h
    obtain ⟨h1, h2, h3, h4, h5, h6, h7, h8, h9, h10, h11, h12, hf⟩ := WF.prepareAD_spec a _ f h
    rw [WF.textOK32_iff] at h1 h8 h9 h10 h11
    rw [WF.textOK_iff] at h7
    exact ⟨⟨h1, h2, h3, h4, h5, h6 M rfl, h7, h8, h9, h10, h11, _, h12⟩, h12, hf⟩
  · rintro ⟨⟨h1, h2, h3, h4, h5, h6, h7, h8, h9, h10, h11, _⟩, h12, hf⟩
    rw [hf]
    exact WF.prepareAD_complete a (some M) f.tip ((WF.textOK32_iff _).2 h1) h2 h3 h4 h5
      (by intro m hm; cases hm; exact h6) ((WF.textOK_iff _).2 h7) ((WF.textOK32_iff _).2 h8)
      ((WF.textOK32_iff _).2 h9) ((WF.textOK32_iff _).2 h10) ((WF.textOK32_iff _).2 h11) h12

/-- An unrepresentable argument tuple is refused. -/
theorem prepareAD_rejects (a : ADArgs) (M : Rat) (h : ¬ Representable a M) :
    ∃ e, prepareAD a (some M) = .error e := by
  cases hp : prepareAD a (some M) with
  | error e => exact ⟨e, rfl⟩
  | ok f => exact absurd ((prepareAD_accepts_iff a M f).1 hp).1 h

/-! ## The single-record emitters: accepted ⇒ exactly the arguments, rejected ⇒ nothing appended -/

theorem exec_fail (w : World) (e : Err) : w.exec [Micro.fail e] = (w, some e) := rfl

theorem exec_emit (w : World) (r : Rec) : w.exec [Micro.emit r] = ({ w with recs := w.recs ++ [r] }, none) := rfl

/-- `aspirate_well`: accepted iff representable; then exactly one `A;` record is appended and the
    independent parser returns exactly the arguments (volume to two decimals, tip as its mask);
    otherwise the call raises and the worklist (indeed the whole state) is unchanged. -/
theorem aspirate_well_carries_args (w : World) (a : ADArgs) :
    (Representable a w.cfg.maxVolume ∧ ∃ t, tipMask a.tip = .ok t ∧ ∃ f : ADFields,
        w.step (.aspirateWell a) = ({ w with recs := w.recs ++ [.asp f] }, none)
        ∧ parseRec (Rec.asp f).renderChars = some (.ad {
            isAsp := true, rackLabel := a.rackLabel.toList, rackId := a.rackId.toList,
            rackType := a.rackType.toList, position := a.position.toNat, tubeId := a.tubeId.toList,
            hundredths := (round2 a.vol).toNat, liquidClass := a.liquidClass.toList, tip := t,
            forcedRackType := a.forcedRackType.toList }))
    ∨ (¬ Representable a w.cfg.maxVolume ∧ ∃ e, w.step (.aspirateWell a) = (w, some e)) := by
  cases hp : prepareAD a (some w.cfg.maxVolume) with
  | error e =>
    right
    refine ⟨fun hr => ?_, e, ?_⟩
    · obtain ⟨t, ht⟩ := hr.2.2.2.2.2.2.2.2.2.2.2
      have := (prepareAD_accepts_iff a w.cfg.maxVolume
        { rackLabel := a.rackLabel, rackId := a.rackId, rackType := a.rackType,
          position := a.position.toNat, tubeId := a.tubeId, vol := a.vol,
          liquidClass := a.liquidClass, tip := t, forcedRackType := a.forcedRackType }).2 ⟨hr, ht, rfl⟩
      rw [hp] at this; cases this
    · simp only [World.step, compile, exceptMicros, hp]; rfl
  | ok f =>
    left
    obtain ⟨hr, ht, hf⟩ := (prepareAD_accepts_iff a _ f).1 hp
    refine ⟨hr, f.tip, ht, f, ?_, ?_⟩
    · simp only [World.step, compile, exceptMicros, hp]; rfl
    · rw [parse_render_asp f (WF.prepareAD_wf _ _ _ hp).1]
      rw [hf]; rfl

/-- `dispense_well`: the same, with a `D;` record. -/
theorem dispense_well_carries_args (w : World) (a : ADArgs) :
    (Representable a w.cfg.maxVolume ∧ ∃ t, tipMask a.tip = .ok t ∧ ∃ f : ADFields,
        w.step (.dispenseWell a) = ({ w with recs := w.recs ++ [.disp f] }, none)
        ∧ parseRec (Rec.disp f).renderChars = some (.ad {
            isAsp := false, rackLabel := a.rackLabel.toList, rackId := a.rackId.toList,
            rackType := a.rackType.toList, position := a.position.toNat, tubeId := a.tubeId.toList,
            hundredths := (round2 a.vol).toNat, liquidClass := a.liquidClass.toList, tip := t,
            forcedRackType := a.forcedRackType.toList }))
    ∨ (¬ Representable a w.cfg.maxVolume ∧ ∃ e, w.step (.dispenseWell a) = (w, some e)) := by
  cases hp : prepareAD a (some w.cfg.maxVolume) with
  | error e =>
    right
    refine ⟨fun hr => ?_, e, ?_⟩
    · obtain ⟨t, ht⟩ := hr.2.2.2.2.2.2.2.2.2.2.2
      have := (prepareAD_accepts_iff a w.cfg.maxVolume
        { rackLabel := a.rackLabel, rackId := a.rackId, rackType := a.rackType,
          position := a.position.toNat, tubeId := a.tubeId, vol := a.vol,
          liquidClass := a.liquidClass, tip := t, forcedRackType := a.forcedRackType }).2 ⟨hr, ht, rfl⟩
      rw [hp] at this; cases this
    · simp only [World.step, compile, exceptMicros, hp]; rfl
  | ok f =>
    left
    obtain ⟨hr, ht, hf⟩ := (prepareAD_accepts_iff a _ f).1 hp
    refine ⟨hr, f.tip, ht, f, ?_, ?_⟩
    · simp only [World.step, compile, exceptMicros, hp]; rfl
    · rw [parse_render_disp f (WF.prepareAD_wf _ _ _ hp).1]
      rw [hf]; rfl

/-- `reagent_distribution`: an accepted call appends exactly one `R;` record which the independent
    parser decodes to the supplied source and destination ranges, volume text, liquid class, DiTi
    reuse, the multi-dispense count reduced only as far as needed (`adaptMultiDisp`, C06), the direction
    bit and the **sorted** exclusion list; every other outcome is an exception with nothing appended. -/
theorem reagent_distribution_carries_args (w : World) (a : RDArgs) :
    (∃ f : RFields, w.step (.reagentDistribution a) = ({ w with recs := w.recs ++ [.rd f] }, none)
        ∧ parseRec (Rec.rd f).renderChars = some (.rd {
            srcLabel := a.srcLabel.toList, srcId := a.srcRackId.toList, srcType := a.srcRackType.toList,
            srcStart := a.srcStart.v, srcEnd := a.srcEnd.v, dstLabel := a.dstLabel.toList,
            dstId := a.dstRackId.toList, dstType := a.dstRackType.toList, dstStart := a.dstStart.v,
            dstEnd := a.dstEnd.v, vol := a.vol.render, liquidClass := a.liquidClass.toList,
            ditiReuse := a.ditiReuse,
            multiDisp := adaptMultiDisp w.cfg.maxVolume a.vol.q a.multiDisp,
            direction := if a.direction = "left_to_right" then 0 else 1,
            excluded := a.exclude.mergeSort (· ≤ ·) })
        ∧ (a.exclude.mergeSort (· ≤ ·)).Pairwise (· ≤ ·) ∧ (a.exclude.mergeSort (· ≤ ·)).Perm a.exclude
        ∧ (∀ x ∈ a.exclude, a.dstStart.v ≤ x ∧ x ≤ a.dstEnd.v) ∧ a.excludeBad = false
        ∧ (a.direction = "left_to_right" ∨ a.direction = "right_to_left")
        ∧ 0 ≤ a.vol.q ∧ a.vol.q ≤ w.cfg.maxVolume
        ∧ a.srcStart.bad = false ∧ a.srcEnd.bad = false ∧ a.dstStart.bad = false ∧ a.dstEnd.bad = false
        ∧ 0 ≤ a.srcStart.v ∧ 0 ≤ a.srcEnd.v ∧ 0 ≤ a.dstStart.v ∧ 0 ≤ a.dstEnd.v)
    ∨ (∃ e, w.step (.reagentDistribution a) = (w, some e)) := by
  have hlen : ∃ m, compileRD w.cfg a = [m] := by
    unfold compileRD
    split
    · exact ⟨_, rfl⟩
    · simp only
      split
      · exact ⟨_, rfl⟩
      · unfold exceptMicros
        split
        · split
          · split <;> exact ⟨_, rfl⟩
          · exact ⟨_, rfl⟩
        · exact ⟨_, rfl⟩
  obtain ⟨m, hm⟩ := hlen
  rcases WF.compileRD_spec w.cfg a m (by rw [hm]; simp) with ⟨e, rfl⟩ | ⟨f, rfl, hwf, hf, hb, b1, b2, b3, b4, hdir, hmx⟩
  · right
    exact ⟨e, by simp only [World.step, compile, hm]; rfl⟩
  · left
    refine ⟨f, by simp only [World.step, compile, hm]; rfl, ?_, ?_, List.mergeSort_perm _ _, ?_, hb, hdir, ?_, hmx,
      b1, b2, b3, b4, ?_⟩
    · rw [parse_render_rd f hwf.1, hf]; rfl
    · have := hwf.2.2.2.2.2.2.2.2.2.2.2.2.2.1
      rw [hf] at this; exact this
    · intro x hx
      have := hwf.2.2.2.2.2.2.2.2.2.2.2.2.2.2 x
      rw [hf] at this
      exact this ((List.mergeSort_perm _ _).mem_iff.2 hx)
    · have := hwf.2.2.2.2.2.2.2.1
      rw [hf] at this; exact this
    · have h := hwf.2.2.2.2.2.2.2.2
      rw [hf] at h
      exact ⟨h.1, h.2.1, h.2.2.1, h.2.2.2.1⟩

/-- The operations that append at most one record and touch no labware. -/
def singleEmitter : Op → Bool
  | .comment _ | .wash _ | .decontaminate | .flush | .commit | .setDiti _ | .aspirateWell _
  | .dispenseWell _ | .reagentDistribution _ => true
  | _ => false

theorem exec_emits (w : World) (rs : List Rec) :
    w.exec (rs.map Micro.emit) = ({ w with recs := w.recs ++ rs }, none) := by
  induction rs generalizing w with
  | nil => simp [World.exec]
  | cons r rs ih =>
    simp only [List.map_cons, World.exec, World.micro]
    rw [ih]
    simp

/-- A call of a record-only method that raises appends nothing: the state is exactly the one before. -/
theorem rejected_appends_nothing (w : World) (op : Op) (hop : singleEmitter op = true) (e : Err)
    (h : (w.step op).2 = some e) : (w.step op).1 = w := by
  cases op with
  | comment c =>
    simp only [World.step, compile, commentMicros, exceptMicros] at h ⊢
    split at h
    · rw [exec_emits] at h; cases h
    · rfl
  | wash n =>
    simp only [World.step, compile, washMicros] at h ⊢
    split at h
    · cases h
    · split at h
      · cases h
      · rename_i h1 h2; rw [if_neg h1, if_neg h2]; rfl
  | decontaminate =>
    simp only [World.step, compile] at h ⊢
    split at h
    · rename_i h1; rw [if_pos h1]; rfl
    · cases h
  | flush => cases h
  | commit => cases h
  | setDiti i =>
    simp only [World.step, compile, World.exec, World.micro] at h ⊢
    split at h
    · cases h
    · rfl
  | aspirateWell a =>
    rcases aspirate_well_carries_args w a with ⟨_, _, _, f, hs, _⟩ | ⟨_, e', hs⟩
    · rw [hs] at h; cases h
    · rw [hs]
  | dispenseWell a =>
    rcases dispense_well_carries_args w a with ⟨_, _, _, f, hs, _⟩ | ⟨_, e', hs⟩
    · rw [hs] at h; cases h
    · rw [hs]
  | reagentDistribution a =>
    rcases reagent_distribution_carries_args w a with ⟨f, hs, _⟩ | ⟨e', hs⟩
    · rw [hs] at h; cases h
    · rw [hs]
  | _ => cases hop

/-! ## Guards -/

/-- A DiTi type switch is accepted exactly at the start of the worklist or directly after a record
    that begins with `B` (a break); it then appends `S;<index>`. -/
theorem set_diti_guard (w : World) (i : Int) :
    (w.step (.setDiti i)).2 = none ↔
      (w.recs = [] ∨ ∃ r, w.recs.getLast? = some r ∧ r.renderChars.head? = some 'B') := by
  simp only [World.step, compile, World.exec, World.micro]
  cases hl : w.recs.getLast? with
  | none =>
    have : w.recs = [] := List.getLast?_eq_none_iff.1 hl
    simp [this]
  | some r =>
    have hne : w.recs ≠ [] := by intro h; rw [h] at hl; cases hl
    by_cases hb : (r.renderChars.head? == some 'B') = true
    · simp only [hb, if_true, true_iff]
      exact Or.inr ⟨r, rfl, by simpa using hb⟩
    · simp only [hb]
      constructor
      · intro h; cases h
      · rintro (h | ⟨r', hr', hh⟩)
        · exact absurd h hne
        · cases hr'; exact absurd (by simpa using hh) hb

theorem set_diti_record (w w' : World) (i : Int) (h : w.step (.setDiti i) = (w', none)) :
    w'.recs = w.recs ++ [.setDiti i] := by
  simp only [World.step, compile, World.exec, World.micro] at h
  cases hl : w.recs.getLast? with
  | none =>
    simp only [hl, if_true] at h
    cases h; rfl
  | some r =>
    simp only [hl] at h
    by_cases hb : (r.renderChars.head? == some 'B') = true
    · simp only [hb, if_true] at h
      cases h; rfl
    · simp only [hb] at h
      cases h

/-- A decontamination wash in DiTi mode raises InvalidOperationError and appends nothing. -/
theorem decontaminate_guard (w : World) (h : w.cfg.ditiMode = true) :
    w.step .decontaminate = (w, some .invalidOp) := by
  simp [World.step, compile, h, World.exec, World.micro]

theorem decontaminate_record (w : World) (h : w.cfg.ditiMode = false) :
    w.step .decontaminate = ({ w with recs := w.recs ++ [.decon] }, none) := by
  simp [World.step, compile, h, World.exec, World.micro]

/-- Wash schemes: exactly 1–4 are accepted (fixed tips); in DiTi mode the record is `W;`. -/
theorem wash_guard (w : World) (n : Int) (hd : w.cfg.ditiMode = false) :
    (w.step (.wash n)).2 = none ↔ (1 ≤ n ∧ n ≤ 4) := by
  simp only [World.step, compile, washMicros, hd, Bool.false_eq_true, if_false]
  constructor
  · intro h
    split at h
    · rename_i hok
      obtain ⟨hc, h0⟩ := hok
      have : n.toNat ∈ Spec.washSchemes := by simpa using hc
      simp only [Spec.washSchemes, List.mem_cons, List.not_mem_nil, or_false] at this
      omega
    · cases h
  · intro ⟨h1, h4⟩
    have hmem : Spec.washSchemes.contains n.toNat = true := by
      have : n.toNat = 1 ∨ n.toNat = 2 ∨ n.toNat = 3 ∨ n.toNat = 4 := by omega
      rcases this with h | h | h | h <;> rw [h] <;> decide
    rw [if_pos ⟨hmem, by omega⟩]
    rfl

/-! ## Non-vacuity -/

example : parseRec "A;Plate;;;3;;12.50;Water;;4;".toList
    = some (.ad {
        isAsp := true, rackLabel := "Plate".toList, rackId := [], rackType := [], position := 3,
        tubeId := [], hundredths := 1250, liquidClass := "Water".toList, tip := some 4,
        forcedRackType := [] }) := by decide +kernel

example : Representable {
    rackLabel := "Plate", position := 3, vol := 25 / 2, liquidClass := "Water",
    tip := .single (.int 3) } 950 := by
  refine ⟨by decide, rfl, by decide, by decide +kernel, by decide +kernel, by decide +kernel, by decide,
    by decide, by decide, by decide, by decide, some 4, by decide⟩

example : (Rec.rd {
    srcLabel := "T", srcId := "", srcType := "", srcStart := 1, srcEnd := 8, dstLabel := "P",
    dstId := "", dstType := "", dstStart := 1, dstEnd := 20, vol := ⟨25, true⟩, liquidClass := "", ditiReuse := 1,
    multiDisp := 1, direction := 0, excluded := [3, 5] }).render = "R;T;;;1;8;P;;;1;20;25;;1;1;0;3;5" := by
  decide +kernel

end Robotools.C09
