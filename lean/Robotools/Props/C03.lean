/-
  C03 — a worklist never contains a rejected pipetting step, even on abort.

  Statements about the model (`World.run`, `World.step`) and the independent record interpreter
  (`RState.run`, which returns `none` as soon as a replayed step would take a well below its
  `min_volume` or above its `max_volume`, or addresses a rack/well that does not exist).
  Helper lemmas: `Robotools/Proofs/ReplayLemmas.lean`.
-/
import Robotools.Proofs.ReplayLemmas
namespace Robotools
namespace C03
open RP

/-- Well-formedness of the labware set (established by the constructors, C20): distinct names;
    troughs have one real row and ≥ 1 virtual row, plates 1..26 rows; volume arrays sized
    `rows × cols`. -/
def WF (w : World) : Prop := WFI (info w)

/-- The states after every operation of a program, up to and including the first failing one
    (`World.run` stops there): the states a `with` block can be left in. -/
def statesOf (w : World) : List Op → List (World × Option Err)
  | [] => []
  | op :: ops =>
    match w.step op with
    | (w', none) => (w', none) :: statesOf w' ops
    | (w', some e) => [(w', some e)]

/-- One operation from a state whose records replay to the tracked volumes: whatever the
    outcome, the records can be replayed without violating a limit; on success the replay again
    reproduces the tracked volumes. -/
theorem step_safe (labs₀ : List Labware) (w : World) (hwf : WF w) (op : Op)
    (hop : tracked op = true) (hinv : Inv w.cfg.dev labs₀ w) :
    Replayable w.cfg.dev labs₀ (w.step op).1
      ∧ ((w.step op).2 = none → Inv w.cfg.dev labs₀ (w.step op).1) :=
  compile_safe (labs₀ := labs₀) w hwf op hop w rfl hinv

theorem step_cfg (w : World) (op : Op) : (w.step op).1.cfg = w.cfg := by
  unfold World.step
  exact World.exec_invariant (P := fun w' => w'.cfg = w.cfg) (Q := fun _ => True)
    (fun w1 w2 m _ hP hm => by
      rw [← hP]
      cases m <;> simp only [World.micro] at hm <;> repeat' split at hm
      all_goals first
        | (injection hm with hm; subst hm; rfl)
        | (injection hm))
    w _ (fun _ _ => trivial) rfl

theorem step_wf (w : World) (op : Op) (hwf : WF w) : WF (w.step op).1 := by
  unfold WF World.step
  rw [info_exec]
  exact hwf

/-- **C03 (abort safety).**  From well-formed labware and an empty worklist, after every
    operation of every program of tracked worklist operations — including the state left by the
    first operation that raises, at whatever sub-step it raises — replaying the accumulated
    records from the initial contents never takes a well outside `[min_volume, max_volume]`. -/
theorem abort_safe (w₀ : World) (hwf : WF w₀) (h0 : w₀.recs = []) (ops : List Op)
    (hops : ∀ op ∈ ops, tracked op = true) :
    ∀ s ∈ statesOf w₀ ops, Replayable w₀.cfg.dev w₀.labs s.1 := by
  have hinv0 : Inv w₀.cfg.dev w₀.labs w₀ := ⟨RState.ofLabs w₀.labs, by rw [h0]; rfl, match_ofLabs w₀⟩
  generalize hlabs : w₀.labs = labs₀ at hinv0 ⊢
  generalize hdev : w₀.cfg.dev = dev at hinv0 ⊢
  clear h0 hlabs
  induction ops generalizing w₀ with
  | nil => intro s hs; cases hs
  | cons op ops ih =>
    intro s hs
    have hop := hops op List.mem_cons_self
    obtain ⟨hrep, hinv⟩ := step_safe labs₀ w₀ hwf op hop (by rw [hdev]; exact hinv0)
    rw [hdev] at hrep hinv
    unfold statesOf at hs
    cases hx : w₀.step op with
    | mk w' e =>
      rw [hx] at hs hrep hinv
      cases e with
      | some e =>
        simp only [List.mem_singleton] at hs
        subst hs
        exact hrep
      | none =>
        simp only [List.mem_cons] at hs
        rcases hs with rfl | hs
        · exact hrep
        · have hcfg : w'.cfg = w₀.cfg := by have := step_cfg w₀ op; rw [hx] at this; exact this
          have hwf' : WF w' := by have := step_wf w₀ op hwf; rw [hx] at this; exact this
          exact ih w' hwf' (fun o ho => hops o (List.mem_cons_of_mem _ ho))
            (by rw [hcfg]; exact hdev) (hinv rfl) s hs

/-- The same for the final state of `World.run` (the state a script ends or aborts in). -/
theorem run_safe (w₀ : World) (hwf : WF w₀) (h0 : w₀.recs = []) (ops : List Op)
    (hops : ∀ op ∈ ops, tracked op = true) :
    Replayable w₀.cfg.dev w₀.labs (w₀.run ops).1 := by
  have hinv0 : Inv w₀.cfg.dev w₀.labs w₀ := ⟨RState.ofLabs w₀.labs, by rw [h0]; rfl, match_ofLabs w₀⟩
  generalize hlabs : w₀.labs = labs₀ at hinv0 ⊢
  generalize hdev : w₀.cfg.dev = dev at hinv0 ⊢
  clear h0 hlabs
  induction ops generalizing w₀ with
  | nil => exact hinv0.replayable
  | cons op ops ih =>
    have hop := hops op List.mem_cons_self
    obtain ⟨hrep, hinv⟩ := step_safe labs₀ w₀ hwf op hop (by rw [hdev]; exact hinv0)
    rw [hdev] at hrep hinv
    unfold World.run
    cases hx : w₀.step op with
    | mk w' e =>
      rw [hx] at hrep hinv
      cases e with
      | some e => exact hrep
      | none =>
        have hcfg : w'.cfg = w₀.cfg := by have := step_cfg w₀ op; rw [hx] at this; exact this
        have hwf' : WF w' := by have := step_wf w₀ op hwf; rw [hx] at this; exact this
        exact ih w' hwf' (fun o ho => hops o (List.mem_cons_of_mem _ ho))
          (by rw [hcfg]; exact hdev) (hinv rfl)

end C03
end Robotools
