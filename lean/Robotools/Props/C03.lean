/-
  C03 — a worklist never contains a rejected pipetting step, even on abort.

  Statements about the model (`World.run`, `World.step`) and the independent record interpreter
  (`RState.run`, which returns `none` as soon as a replayed step would take a well below its
  `min_volume` or above its `max_volume`, or addresses a rack/well that does not exist).
  Helper lemmas: `Robotools/Proofs/ReplayLemmas.lean`.
-/
import Robotools.Proofs.ReplayLemmas
import Robotools.Proofs.BoundLemmas
import Robotools.Proofs.FlowLemmas
import Robotools.Proofs.PlanLemmas
namespace Robotools
namespace C03
open RP

/-- Well-formedness of the labware set (established by the constructors, C20): distinct names;
    troughs have one real row and ≥ 1 virtual row, plates 1..26 rows; volume arrays sized
    `rows × cols`. -/
def WF (w : World) : Prop := WFI (info w)

/-- The states after every operation of a program, up to and including the first failing one
    (`World.run` stops there): the states a `with` block can be left in. -/
def statesOf (w : World) : List Op → List (World × Option Err)
  | [] => []
  | op :: ops =>
    match w.step op with
    | (w', none) => (w', none) :: statesOf w' ops
    | (w', some e) => [(w', some e)]

/-- One operation from a state whose records replay to the tracked volumes: whatever the
    outcome, the records can be replayed without violating a limit; on success the replay again
    reproduces the tracked volumes. -/
theorem step_safe (labs₀ : List Labware) (w : World) (hwf : WF w) (op : Op)
    (hop : tracked op = true) (hinv : Inv w.cfg.dev labs₀ w) :
    Replayable w.cfg.dev labs₀ (w.step op).1
      ∧ ((w.step op).2 = none → Inv w.cfg.dev labs₀ (w.step op).1) :=
  compile_safe (labs₀ := labs₀) w hwf op hop w rfl hinv

theorem step_cfg (w : World) (op : Op) : (w.step op).1.cfg = w.cfg := by
  unfold World.step
  exact World.exec_invariant (P := fun w' => w'.cfg = w.cfg) (Q := fun _ => True)
    (fun w1 w2 m _ hP hm => by
      rw [← hP]
      cases m <;> simp only [World.micro] at hm <;> repeat' split at hm
      all_goals first
        | (injection hm with hm; subst hm; rfl)
        | (injection hm))
    w _ (fun _ _ => trivial) rfl

theorem step_wf (w : World) (op : Op) (hwf : WF w) : WF (w.step op).1 := by
  unfold WF World.step
  rw [info_exec]
  exact hwf

/-- **C03 (abort safety).**  From well-formed labware and an empty worklist, after every
    operation of every program of tracked worklist operations — including the state left by the
    first operation that raises, at whatever sub-step it raises — replaying the accumulated
    records from the initial contents never takes a well outside `[min_volume, max_volume]`. -/
theorem abort_safe (w₀ : World) (hwf : WF w₀) (h0 : w₀.recs = []) (ops : List Op)
    (hops : ∀ op ∈ ops, tracked op = true) :
    ∀ s ∈ statesOf w₀ ops, Replayable w₀.cfg.dev w₀.labs s.1 := by
  have hinv0 : Inv w₀.cfg.dev w₀.labs w₀ := ⟨RState.ofLabs w₀.labs, by rw [h0]; rfl, match_ofLabs w₀⟩
  generalize hlabs : w₀.labs = labs₀ at hinv0 ⊢
  generalize hdev : w₀.cfg.dev = dev at hinv0 ⊢
  clear h0 hlabs
  induction ops generalizing w₀ with
  | nil => intro s hs; cases hs
  | cons op ops ih =>
    intro s hs
    have hop := hops op List.mem_cons_self
    obtain ⟨hrep, hinv⟩ := step_safe labs₀ w₀ hwf op hop (by rw [hdev]; exact hinv0)
    rw [hdev] at hrep hinv
    unfold statesOf at hs
    cases hx : w₀.step op with
    | mk w' e =>
      rw [hx] at hs hrep hinv
      cases e with
      | some e =>
        simp only [List.mem_singleton] at hs
        subst hs
        exact hrep
      | none =>
        simp only [List.mem_cons] at hs
        rcases hs with rfl | hs
        · exact hrep
        · have hcfg : w'.cfg = w₀.cfg := by have := step_cfg w₀ op; rw [hx] at this; exact this
          have hwf' : WF w' := by have := step_wf w₀ op hwf; rw [hx] at this; exact this
          exact ih w' hwf' (fun o ho => hops o (List.mem_cons_of_mem _ ho))
            (by rw [hcfg]; exact hdev) (hinv rfl) s hs

/-- The same for the final state of `World.run` (the state a script ends or aborts in). -/
theorem run_safe (w₀ : World) (hwf : WF w₀) (h0 : w₀.recs = []) (ops : List Op)
    (hops : ∀ op ∈ ops, tracked op = true) :
    Replayable w₀.cfg.dev w₀.labs (w₀.run ops).1 := by
  have hinv0 : Inv w₀.cfg.dev w₀.labs w₀ := ⟨RState.ofLabs w₀.labs, by rw [h0]; rfl, match_ofLabs w₀⟩
  generalize hlabs : w₀.labs = labs₀ at hinv0 ⊢
  generalize hdev : w₀.cfg.dev = dev at hinv0 ⊢
  clear h0 hlabs
  induction ops generalizing w₀ with
  | nil => exact hinv0.replayable
  | cons op ops ih =>
    have hop := hops op List.mem_cons_self
    obtain ⟨hrep, hinv⟩ := step_safe labs₀ w₀ hwf op hop (by rw [hdev]; exact hinv0)
    rw [hdev] at hrep hinv
    unfold World.run
    cases hx : w₀.step op with
    | mk w' e =>
      rw [hx] at hrep hinv
      cases e with
      | some e => exact hrep
      | none =>
        have hcfg : w'.cfg = w₀.cfg := by have := step_cfg w₀ op; rw [hx] at this; exact this
        have hwf' : WF w' := by have := step_wf w₀ op hwf; rw [hx] at this; exact this
        exact ih w' hwf' (fun o ho => hops o (List.mem_cons_of_mem _ ho))
          (by rw [hcfg]; exact hdev) (hinv rfl)

/-! ### No oversized step -/

/-- **C03 (per-step bound).**  For *any* program over *all* public operations with any
    arguments, every `A;`/`D;` record present after any number of operations — also in the state a
    failing operation leaves behind — carries a volume of at most the worklist's `max_volume`. -/
theorem steps_bounded (w₀ : World) (h0 : ∀ r ∈ w₀.recs, Rec.within w₀.cfg.maxVolume r)
    (ops : List Op) : ∀ s ∈ statesOf w₀ ops, ∀ r ∈ s.1.recs, Rec.within w₀.cfg.maxVolume r := by
  induction ops generalizing w₀ with
  | nil => intro s hs; cases hs
  | cons op ops ih =>
    intro s hs
    have hstep : ∀ r ∈ (w₀.step op).1.recs, Rec.within w₀.cfg.maxVolume r :=
      recs_within_exec w₀ _ (within_compile w₀ op) h0
    unfold statesOf at hs
    cases hx : w₀.step op with
    | mk w' e =>
      rw [hx] at hs hstep
      cases e with
      | some e =>
        simp only [List.mem_singleton] at hs
        subst hs
        exact hstep
      | none =>
        simp only [List.mem_cons] at hs
        rcases hs with rfl | hs
        · exact hstep
        · have hcfg : w'.cfg = w₀.cfg := by have := step_cfg w₀ op; rw [hx] at this; exact this
          rw [← hcfg]
          exact ih w' (by rw [hcfg]; exact hstep) s hs

theorem exec_fail_mem (w : World) (ms : List Micro) (e : Err) (h : Micro.fail e ∈ ms) :
    (w.exec ms).2 ≠ none := by
  induction ms generalizing w with
  | nil => cases h
  | cons m ms ih =>
    cases hm : w.micro m with
    | error e' => rw [World.exec_cons_error _ hm]; simp
    | ok w' =>
      rw [World.exec_cons_ok _ hm]
      rcases List.mem_cons.1 h with rfl | h'
      · simp [World.micro] at hm
      · exact ih w' h'

theorem prepareAD_oversize (a : ADArgs) (M : Rat) (h : M < a.vol) :
    ∃ e, prepareAD a (some M) = .error e := by
  simp only [prepareAD, bind, Except.bind, pure, Except.pure, throw, throwThe, MonadExceptOf.throw]
  repeat' split
  all_goals first
    | exact ⟨_, rfl⟩
    | (exfalso; simp_all)

/-- The triples a `transfer` call works on (after flattening and broadcasting). -/
def transferTriples (srcWells dstWells : Arr String) (vols : Arr Rat) : List Triple :=
  let sw := srcWells.flattenF
  let dw := dstWells.flattenF
  let vs := vols.flattenF
  let nmax := max sw.length (max dw.length vs.length)
  (((broadcast1 sw nmax).zip (broadcast1 dw nmax)).zip (broadcast1 vs nmax)).map
    fun ((s, d), v) => ⟨s, d, v⟩

theorem pair_mem_plan_nosplit (M : Rat) (byDest : Bool) (ts : List Triple) (t : Triple) (ht : t ∈ ts)
    (hv : 0 < t.vol) : PlanStep.pair t.src t.dst t.vol ∈ transferPlan false M byDest ts := by
  have hperm := partitionByColumn_flatten_perm ts byDest
  have hmem : t ∈ (partitionByColumn ts byDest).flatten := hperm.mem_iff.2 ht
  obtain ⟨g, hg, htg⟩ := List.mem_flatten.1 hmem
  unfold transferPlan
  refine List.mem_flatMap.2 ⟨g, hg, ?_⟩
  have hvls : volLists false M g = g.map fun t => [t.vol] := by
    unfold volLists; simp
  rw [hvls]
  unfold groupPlan
  have hin : [t.vol] ∈ g.map fun t => [t.vol] := List.mem_map.2 ⟨t, htg, rfl⟩
  have hnp : 0 < maxLen (g.map fun t => [t.vol]) := by
    have := length_le_maxLen hin
    simp at this
    omega
  simp only [List.mem_append, List.mem_flatMap, List.mem_range]
  refine Or.inl ⟨0, hnp, Or.inl ⟨(t.src, t.dst, t.vol), ?_, by simp⟩⟩
  unfold roundPairs
  rw [zip_map_self, List.mem_filterMap]
  exact ⟨(t, [t.vol]), List.mem_map.2 ⟨t, htg, rfl⟩, by simp [hv]⟩

/-- **C03 (no silent oversize).**  Without `auto_split`, a transfer that requests a volume above
    `max_volume` for some (source, destination) pair never completes: the operation raises
    (`InvalidOperationError` from the per-step guard, unless something else refuses it earlier),
    and by `steps_bounded` the oversized step is not in the worklist. -/
theorem no_split_rejects (w : World) (cfg : Cfg) (hns : cfg.autoSplit = false) (S : Labware)
    (src : Nat) (srcWells : Arr String) (D : Labware) (dst : Nat) (dstWells : Arr String)
    (vols : Arr Rat) (label : Option String) (wash : WashArg) (partitionBy : String) (kw : KW)
    (t : Triple) (ht : t ∈ transferTriples srcWells dstWells vols) (hbig : cfg.maxVolume < t.vol)
    (hpos : 0 < t.vol) :
    (w.exec (compileTransfer cfg S src srcWells D dst dstWells vols label wash partitionBy kw)).2
      ≠ none := by
  suffices h : ∃ e, Micro.fail e ∈
      compileTransfer cfg S src srcWells D dst dstWells vols label wash partitionBy kw by
    obtain ⟨e, he⟩ := h
    exact exec_fail_mem w _ e he
  unfold compileTransfer
  split
  · exact ⟨_, List.mem_singleton.2 rfl⟩
  · simp only
    split
    · exact ⟨_, List.mem_singleton.2 rfl⟩
    · split
      · exact ⟨_, List.mem_singleton.2 rfl⟩
      · split
        · exact ⟨_, List.mem_singleton.2 rfl⟩
        · rename_i byDest _
          have hpair := pair_mem_plan_nosplit cfg.maxVolume byDest _ t ht hpos
          rw [hns]
          -- the aspirate of that pair contains a `fail`
          have hasp : ∃ e, Micro.fail e ∈
              compileAspirate cfg S src (.scalar t.src) (.scalar t.vol) none kw := by
            unfold compileAspirate
            simp only [Arr.flattenF, broadcast1, List.length_singleton, List.replicate_one]
            rw [emitAD_eq]
            simp only [List.zip_cons_cons, List.zip_nil_right, List.flatMap_cons, List.flatMap_nil,
              List.append_nil]
            have : ∃ e, adOut cfg S true kw (t.src, t.vol) = .error e := by
              unfold adOut
              simp only [hpos, if_true]
              cases cfg.dev.pos S.geom t.src with
              | error e => exact ⟨e, rfl⟩
              | ok pos =>
                simp only
                obtain ⟨e, he⟩ := prepareAD_oversize
                  { rackLabel := S.name, position := pos, vol := t.vol,
                    liquidClass := kw.liquidClass, tip := kw.tip, rackId := kw.rackId,
                    tubeId := kw.tubeId, rackType := kw.rackType,
                    forcedRackType := kw.forcedRackType } cfg.maxVolume hbig
                rw [he]
                exact ⟨e, rfl⟩
            obtain ⟨e, he⟩ := this
            refine ⟨e, ?_⟩
            rw [he]
            simp [exceptMicros]
          obtain ⟨e, he⟩ := hasp
          refine ⟨e, ?_⟩
          simp only [List.mem_append, List.mem_flatMap]
          refine Or.inl (Or.inr ⟨_, hpair, ?_⟩)
          simp only [List.mem_append]
          exact Or.inl (Or.inl he)

/-- Non-vacuity of `no_split_rejects`: a 1000 µL request against `max_volume = 950`. -/
example : ∃ t ∈ transferTriples (.scalar "A01") (.vec ["A01", "B01"]) (.scalar 1000),
    (950 : Rat) < t.vol ∧ 0 < t.vol :=
  ⟨⟨"A01", "A01", 1000⟩, by decide +kernel, by decide +kernel, by decide +kernel⟩

end C03
end Robotools
