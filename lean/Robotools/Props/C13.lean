/-
  C13 — EVO script commands agree with the volume tracking and with their arguments.

  `EvoADFields.decode` (Model/EvoCmd.lean) reads a command the way EVOware does, independently of how
  it was built: the wells selected in the bitmap, in ascending position order, are served by the
  selected tips in ascending order, each tip carrying the volume of its slot.
  * `evo_cmd_agrees`: for every accepted call the decoded (well, volume) list is exactly the wells of
    the call in the order given, paired with the two-decimal rounding of the per-tip volumes;
  * `evo_tracking_aspirate/dispense`: and those per-tip volumes are exactly what the tracking removes
    from / adds to those wells (same wells, same order) before the command is appended;
  * `evo_names_arguments`: liquid class, arm, grid, zero-based site, tip mask = OR of the tips;
  * `accepted_expressible` / `evo_rejects`: accepted calls have one column, strictly ascending rows,
    distinct concrete tips, one tip and one in-range volume per well, grid/site/arm in range;
  * `evo_wash_spec` / `evo_wash_rejects`: every wash parameter range-checked, fields as given.
  The textual order of the parameters is the `Spec` template (GenOK + Proofs/Templates.lean).
-/
import Robotools.Model.World
import Robotools.Proofs.EvoLemmas
import Robotools.Proofs.Templates
import Robotools.Props.C04
import Robotools.Props.C10
namespace Robotools.C13
open Robotools Evo

/-- The `tips` argument only contains genuine `Tip` members (their value is −1 or a power of two
    up to 128): a well-formedness condition of the argument type, not of the call. -/
def TipsTyped (tips : List TipSym) : Prop :=
  ∀ v, TipSym.member v ∈ tips → v = -1 ∨ (v.toNat ∈ Spec.tipSlots ∧ 0 ≤ v)

theorem decode_eq (f : EvoADFields) :
    f.decode = (enumWells f.rows f.cols f.bits).zip (f.slots.filterMap id) := rfl

/-- **Main theorem.** Decoding an accepted command by EVOware's rule gives exactly the wells of the
    call, in the order given, each with the two-decimal rounding of its per-tip volume. -/
theorem evo_cmd_agrees (isAsp : Bool) (a : EvoADArgs) (R C : Nat) (M : Rat) (f : EvoADFields)
    (h : evoAD isAsp a R C M = .ok f) (hT : TipsTyped a.tips) :
    ∃ sel vols,
      evoSel a.wells.flattenF R C = .ok sel ∧ a.wells.flattenF = sel.map (fun rc => wellId rc.1 rc.2)
      ∧ evoVols a a.wells.flattenF.length M = .ok vols ∧ vols.length = sel.length
      ∧ f.decode = sel.zip (vols.map round2) := by
  obtain ⟨vols, tipVals, sel, _, hlen, _, _, hv, _, ht, _, hany, hdd, hasc, hs, hcol, hf⟩ := evoAD_spec isAsp a R C M f h
  obtain ⟨hws, _⟩ := evoSel_spec _ R C sel hs
  obtain ⟨hvl, _, _⟩ := evoVols_spec a _ M vols hv hlen.symm
  obtain ⟨htl, htv⟩ := evoTipVals_spec a.tips tipVals ht hT
  have hsl : sel.length = a.wells.flattenF.length := by rw [hws]; simp
  refine ⟨sel, vols, hs, hws, hv, by omega, ?_⟩
  rw [decode_eq, hf]
  simp only
  rw [enumWells_eq _ R C sel hs hcol hasc]
  congr 1
  apply C10.fillSlots_volumes
  · intro x hx
    obtain ⟨v, hv', rfl⟩ := List.mem_map.1 hx
    rcases htv v hv' with rfl | ⟨hm, _⟩
    · exact absurd hv' hany
    · exact hm
  · exact nodup_of_dedup_length _ hdd
  · simp only [List.length_map]; omega

/-- The command names the given liquid class, arm, grid and the site zero-based; the tip mask is the
    bitwise OR of the (distinct) tips. -/
theorem evo_names_arguments (isAsp : Bool) (a : EvoADArgs) (R C : Nat) (M : Rat) (f : EvoADFields)
    (h : evoAD isAsp a R C M = .ok f) (hT : TipsTyped a.tips) :
    f.isAsp = isAsp ∧ f.liquidClass = a.liquidClass ∧ (f.arm : Int) = a.arm ∧ (f.grid : Int) = a.grid
      ∧ (f.site : Int) = a.site - 1 ∧ f.rows = R ∧ f.cols = C
      ∧ ∃ tv, evoTipVals a.tips = .ok tv ∧ f.tipSel = orMask (tv.map Int.toNat) := by
  obtain ⟨vols, tipVals, sel, _, _, hg, hsite, _, _, ht, harm, hany, hdd, _, _, _, hf⟩ := evoAD_spec isAsp a R C M f h
  obtain ⟨_, htv⟩ := evoTipVals_spec a.tips tipVals ht hT
  rw [hf]
  refine ⟨rfl, rfl, ?_, ?_, ?_, rfl, rfl, tipVals, ht, ?_⟩
  · show ((a.arm.toNat : Nat) : Int) = a.arm
    rcases harm with h | h <;> rw [h] <;> rfl
  · show ((a.grid.toNat : Nat) : Int) = a.grid
    exact Int.toNat_of_nonneg (by omega)
  · show (((a.site - 1).toNat : Nat) : Int) = a.site - 1
    exact Int.toNat_of_nonneg (by omega)
  · apply C10.evo_mask_or _ _ (nodup_of_dedup_length _ hdd)
    intro x hx
    obtain ⟨v, hv', rfl⟩ := List.mem_map.1 hx
    rcases htv v hv' with rfl | ⟨hm, _⟩
    · exact absurd hv' hany
    · exact hm

/-! ## Agreement with the tracking -/

/-- The `volume` argument as `compileEvoAD` hands it to `remove` / `add`. -/
abbrev volArr (a : EvoADArgs) : Arr Rat := a.volume.toArr

theorem volArr_flatten (a : EvoADArgs) : (volArr a).flattenF = a.volume.toList := by
  unfold volArr EvoVol.toArr EvoVol.toList; cases a.volume <;> rfl

/-- The real well an ID of the grid names (troughs: the one real well of the column). -/
def realIndex (g : Geom) (rc : Nat × Nat) : Nat := g.flat (if g.isTrough then 0 else rc.1, rc.2)

theorem resolve_sel (g : Geom) (sel : List (Nat × Nat))
    (hb : ∀ rc ∈ sel, rc.1 < min 26 g.nRowIds ∧ rc.2 < g.cols) :
    (sel.map (fun rc => wellId rc.1 rc.2)).map g.resolveFlat = (sel.map (realIndex g)).map some := by
  rw [List.map_map, List.map_map]
  apply List.map_congr_left
  intro rc hrc
  obtain ⟨h1, h2⟩ := hb rc hrc
  simp only [Function.comp, Geom.resolveFlat, Geom.resolve_wellId g (by omega : rc.1 < g.nRowIds) h2,
    Option.map_some, realIndex]

/-- `evo_aspirate`: before the command is appended the tracking removes, from exactly the wells the
    command selects and in the same order, exactly the per-tip volumes whose two-decimal roundings the
    command carries. -/
theorem evo_tracking_aspirate (cfg : Cfg) (L : Labware) (l : Nat) (a : EvoADArgs) (label : Option String)
    (f : EvoADFields) (hdev : cfg.dev = .evo)
    (h : evoAD true a L.geom.nRowIds L.geom.cols cfg.maxVolume = .ok f) (hT : TipsTyped a.tips) :
    ∃ (sel : List (Nat × Nat)) (vols : List Rat), f.decode = sel.zip (vols.map round2) ∧ vols.length = sel.length ∧
      compileEvoAD cfg L l true a label none
        = ((sel.map (realIndex L.geom)).zip vols).map (fun (i, v) => Micro.rm l i v) ++ [.log l label]
          ++ commentMicros label ++ [.emit (.evo (String.ofList f.render))] := by
  obtain ⟨sel, vols, hs, hws, hv, hvl, hdec⟩ := evo_cmd_agrees true a _ _ _ f h hT
  obtain ⟨_, _, _, _, hlen, _⟩ := evoAD_spec true a _ _ _ f h
  obtain ⟨_, hb⟩ := evoSel_spec _ _ _ sel hs
  obtain ⟨hvl', hrange, hbc⟩ := evoVols_spec a _ _ vols hv hlen.symm
  refine ⟨sel, vols, hdec, hvl, ?_⟩
  unfold compileEvoAD
  rw [if_neg (by simp [hdev])]
  simp only [if_true, h, exceptMicros]
  have hshape := C04.compileRemove_shape L l a.wells (volArr a) label (sel.map (realIndex L.geom))
    (by rw [volArr_flatten, hbc]; exact hvl') (by rw [volArr_flatten, hbc]; exact fun v hv => (hrange v hv).1)
    (by rw [hws]; exact resolve_sel L.geom sel hb)
  rw [volArr_flatten, hbc] at hshape
  rw [hshape]

/-- `evo_dispense` (without explicit compositions): the same for additions. -/
theorem evo_tracking_dispense (cfg : Cfg) (L : Labware) (l : Nat) (a : EvoADArgs) (label : Option String)
    (f : EvoADFields) (hdev : cfg.dev = .evo)
    (h : evoAD false a L.geom.nRowIds L.geom.cols cfg.maxVolume = .ok f) (hT : TipsTyped a.tips) :
    ∃ (sel : List (Nat × Nat)) (vols : List Rat), f.decode = sel.zip (vols.map round2) ∧ vols.length = sel.length ∧
      compileEvoAD cfg L l false a label none
        = ((sel.map (realIndex L.geom)).zip vols).map (fun (i, v) => Micro.ad l i v .none) ++ [.log l label]
          ++ commentMicros label ++ [.emit (.evo (String.ofList f.render))] := by
  obtain ⟨sel, vols, hs, hws, hv, hvl, hdec⟩ := evo_cmd_agrees false a _ _ _ f h hT
  obtain ⟨_, _, _, _, hlen, _⟩ := evoAD_spec false a _ _ _ f h
  obtain ⟨_, hb⟩ := evoSel_spec _ _ _ sel hs
  obtain ⟨hvl', hrange, hbc⟩ := evoVols_spec a _ _ vols hv hlen.symm
  refine ⟨sel, vols, hdec, hvl, ?_⟩
  unfold compileEvoAD
  rw [if_neg (by simp [hdev])]
  simp only [Bool.false_eq_true, if_false, h, exceptMicros]
  have hshape := C04.compileAdd_shape L l a.wells (volArr a) label (sel.map (realIndex L.geom))
    (by rw [volArr_flatten, hbc]; exact hvl') (by rw [volArr_flatten, hbc]; exact fun v hv => (hrange v hv).1)
    (by rw [hws]; exact resolve_sel L.geom sel hb)
  rw [volArr_flatten, hbc] at hshape
  rw [hshape]

/-! ## Calls that cannot be expressed as one command are rejected -/

/-- What a call must satisfy to be expressible as one EVOware command. -/
def Expressible (a : EvoADArgs) (R C : Nat) (M : Rat) : Prop :=
  a.wellsBad = false ∧ a.wells.flattenF.length = a.tips.length
    ∧ (a.gridBad = false ∧ 1 ≤ a.grid ∧ a.grid ≤ 67) ∧ (a.siteBad = false ∧ 1 ≤ a.site ∧ a.site ≤ 128)
    ∧ (a.arm = 0 ∨ a.arm = 1) ∧ ';' ∉ a.liquidClass.toList
    ∧ (∃ vols, evoVols a a.wells.flattenF.length M = .ok vols ∧ vols.length = a.tips.length
        ∧ ∀ v ∈ vols, 0 ≤ v ∧ v ≤ (Spec.maxRecordVolume : Rat) ∧ v ≤ M)
    ∧ (∃ tv, evoTipVals a.tips = .ok tv ∧ (-1 : Int) ∉ tv ∧ (tv.map Int.toNat).Nodup)
    ∧ (∃ sel, evoSel a.wells.flattenF R C = .ok sel ∧ (∀ p ∈ sel, ∀ q ∈ sel, p.2 = q.2)
        ∧ sel.Pairwise (fun p q => p.1 < q.1))

/-- Every accepted call is expressible: wells of one column in strictly ascending row order, distinct
    concrete tips, one in-range volume per tip, grid / site / arm in range. -/
theorem accepted_expressible (isAsp : Bool) (a : EvoADArgs) (R C : Nat) (M : Rat) (f : EvoADFields)
    (h : evoAD isAsp a R C M = .ok f) : Expressible a R C M := by
  obtain ⟨vols, tipVals, sel, h1, h2, h3, h4, hv, h5, ht, h6, h7, h8, hasc, hs, hcol, _⟩ := evoAD_spec isAsp a R C M f h
  obtain ⟨hvl, hrange, _⟩ := evoVols_spec a _ M vols hv h2.symm
  refine ⟨h1, h2, h3, h4, h6, h5, ⟨vols, hv, by omega, hrange⟩, ⟨tipVals, ht, h7, nodup_of_dedup_length _ h8⟩,
    sel, hs, same_column sel hcol, ?_⟩
  have := sel_sorted _ R C sel hs hcol hasc
  refine this.imp_of_mem ?_
  intro p q hp hq hlt
  rcases hlt with hlt | ⟨_, hlt⟩
  · have := same_column sel hcol p hp q hq; omega
  · exact hlt

/-- A call that is not expressible raises (and, the command being the last thing built, appends no
    command). -/
theorem evo_rejects (isAsp : Bool) (a : EvoADArgs) (R C : Nat) (M : Rat) (h : ¬ Expressible a R C M) :
    ∃ e, evoAD isAsp a R C M = .error e := by
  cases hp : evoAD isAsp a R C M with
  | error e => exact ⟨e, rfl⟩
  | ok f => exact absurd (accepted_expressible isAsp a R C M f hp) h

/-- A rejected command is not appended: the call compiles to the tracking update, the label's comment
    lines and then the exception — no `B;Aspirate(`/`B;Dispense(` record. -/
theorem rejected_emits_no_command (cfg : Cfg) (L : Labware) (l : Nat) (isAsp : Bool) (a : EvoADArgs)
    (label : Option String) (comps : Option (List (Option Comp))) (e : Err) (hdev : cfg.dev = .evo)
    (h : evoAD isAsp a L.geom.nRowIds L.geom.cols cfg.maxVolume = .error e) :
    compileEvoAD cfg L l isAsp a label comps
      = (if isAsp then compileRemove L l a.wells (volArr a) label else compileAdd L l a.wells (volArr a) label comps)
        ++ commentMicros label ++ [.fail e] := by
  unfold compileEvoAD
  rw [if_neg (by simp [hdev])]
  simp only [h, exceptMicros]

/-! ## evo_wash -/

theorem intIn_ok (a : IntArg) (lo hi : Int) (n : Nat) (h : intIn a lo hi = .ok n) :
    a.bad = false ∧ lo ≤ a.v ∧ a.v ≤ hi ∧ n = a.v.toNat := by
  unfold intIn at h
  split at h
  · cases h
  · rename_i hc
    cases h
    simp only [not_or, Bool.not_eq_true, Int.not_lt] at hc
    exact ⟨hc.1, hc.2.1, hc.2.2, rfl⟩

theorem volIn_ok (x : Option PyNum) (p : PyNum) (h : volIn x = .ok p) :
    ∃ n, x = some n ∧ 0 ≤ n.q ∧ n.q ≤ 100 ∧ p = roundTenth n := by
  unfold volIn at h
  split at h
  · cases h
  · rename_i n
    split at h
    · cases h
    · rename_i hc
      cases h
      simp only [not_or, Rat.not_lt] at hc
      exact ⟨n, rfl, hc.1, hc.2, rfl⟩

/-- An accepted `evo_wash`: every parameter was range-checked (grids 1..67, sites 1..128, arm 0/1,
    volumes 0..100 rounded to one decimal, delays 0..1000, airgap 0..100, speeds 1..1000 / 1..100, flags
    0/1, distinct concrete tips) and the command carries them — sites zero-based. -/
theorem evo_wash_spec (a : EvoWashArgs) (f : EvoWashFields) (h : evoWash a = .ok f) :
    ∃ tipVals wv cv,
      evoWashTipVals a.tips = .ok tipVals ∧ (-1 : Int) ∉ tipVals
      ∧ (dedup (tipVals.map Int.toNat)).length = tipVals.length
      ∧ (a.wasteGrid.bad = false ∧ 1 ≤ a.wasteGrid.v ∧ a.wasteGrid.v ≤ 67)
      ∧ (a.wasteSite.bad = false ∧ 1 ≤ a.wasteSite.v ∧ a.wasteSite.v ≤ 128)
      ∧ (a.cleanerGrid.bad = false ∧ 1 ≤ a.cleanerGrid.v ∧ a.cleanerGrid.v ≤ 67)
      ∧ (a.cleanerSite.bad = false ∧ 1 ≤ a.cleanerSite.v ∧ a.cleanerSite.v ≤ 128)
      ∧ (a.arm = 0 ∨ a.arm = 1)
      ∧ (a.wasteVol = some wv ∧ 0 ≤ wv.q ∧ wv.q ≤ 100) ∧ (a.cleanerVol = some cv ∧ 0 ≤ cv.q ∧ cv.q ≤ 100)
      ∧ (a.wasteDelay.bad = false ∧ 0 ≤ a.wasteDelay.v ∧ a.wasteDelay.v ≤ 1000)
      ∧ (a.cleanerDelay.bad = false ∧ 0 ≤ a.cleanerDelay.v ∧ a.cleanerDelay.v ≤ 1000)
      ∧ (a.airgap.bad = false ∧ 0 ≤ a.airgap.v ∧ a.airgap.v ≤ 100)
      ∧ (a.airgapSpeed.bad = false ∧ 1 ≤ a.airgapSpeed.v ∧ a.airgapSpeed.v ≤ 1000)
      ∧ (a.retractSpeed.bad = false ∧ 1 ≤ a.retractSpeed.v ∧ a.retractSpeed.v ≤ 100)
      ∧ (a.fastwash.bad = false ∧ 0 ≤ a.fastwash.v ∧ a.fastwash.v ≤ 1)
      ∧ (a.lowVolume.bad = false ∧ 0 ≤ a.lowVolume.v ∧ a.lowVolume.v ≤ 1)
      ∧ f = { tipSel := tipVals.foldl (· + ·) 0, wasteGrid := a.wasteGrid.v.toNat,
              wasteSite := a.wasteSite.v.toNat - 1, cleanerGrid := a.cleanerGrid.v.toNat,
              cleanerSite := a.cleanerSite.v.toNat - 1, wasteVol := roundTenth wv,
              wasteDelay := a.wasteDelay.v.toNat, cleanerVol := roundTenth cv,
              cleanerDelay := a.cleanerDelay.v.toNat, airgap := a.airgap.v.toNat,
              airgapSpeed := a.airgapSpeed.v.toNat, retractSpeed := a.retractSpeed.v.toNat,
              fastwash := a.fastwash.v.toNat, lowVolume := a.lowVolume.v.toNat, arm := a.arm.toNat } := by
  simp only [evoWash, bind, Except.bind, pure, Except.pure, throw, throwThe, MonadExceptOf.throw] at h
  cases ht : evoWashTipVals a.tips with
  | error e => rw [ht] at h; cases h
  | ok tipVals =>
  rw [ht] at h; simp only at h
  by_cases h1 : tipVals.contains (-1) = true
  · rw [if_pos h1] at h; cases h
  rw [if_neg h1] at h
  by_cases h2 : (dedup (tipVals.map Int.toNat)).length ≠ tipVals.length
  · rw [if_pos h2] at h; cases h
  rw [if_neg h2] at h
  cases e1 : intIn a.wasteGrid 1 Spec.maxGrid with
  | error e => rw [e1] at h; cases h
  | ok wg =>
  rw [e1] at h; simp only at h
  cases e2 : intIn a.wasteSite 1 Spec.maxSite with
  | error e => rw [e2] at h; cases h
  | ok ws =>
  rw [e2] at h; simp only at h
  cases e3 : intIn a.cleanerGrid 1 Spec.maxGrid with
  | error e => rw [e3] at h; cases h
  | ok cg =>
  rw [e3] at h; simp only at h
  cases e4 : intIn a.cleanerSite 1 Spec.maxSite with
  | error e => rw [e4] at h; cases h
  | ok cs =>
  rw [e4] at h; simp only at h
  by_cases h3 : ¬(a.arm = 0 ∨ a.arm = 1)
  · rw [if_pos h3] at h; cases h
  rw [if_neg h3] at h
  cases e5 : volIn a.wasteVol with
  | error e => rw [e5] at h; cases h
  | ok wv =>
  rw [e5] at h; simp only at h
  cases e6 : intIn a.wasteDelay 0 1000 with
  | error e => rw [e6] at h; cases h
  | ok wd =>
  rw [e6] at h; simp only at h
  cases e7 : volIn a.cleanerVol with
  | error e => rw [e7] at h; cases h
  | ok cv =>
  rw [e7] at h; simp only at h
  cases e8 : intIn a.cleanerDelay 0 1000 with
  | error e => rw [e8] at h; cases h
  | ok cd =>
  rw [e8] at h; simp only at h
  cases e9 : intIn a.airgap 0 100 with
  | error e => rw [e9] at h; cases h
  | ok ag =>
  rw [e9] at h; simp only at h
  cases e10 : intIn a.airgapSpeed 1 1000 with
  | error e => rw [e10] at h; cases h
  | ok ags =>
  rw [e10] at h; simp only at h
  cases e11 : intIn a.retractSpeed 1 100 with
  | error e => rw [e11] at h; cases h
  | ok rs =>
  rw [e11] at h; simp only at h
  cases e12 : intIn a.fastwash 0 1 with
  | error e => rw [e12] at h; cases h
  | ok fw =>
  rw [e12] at h; simp only at h
  cases e13 : intIn a.lowVolume 0 1 with
  | error e => rw [e13] at h; cases h
  | ok lv =>
  rw [e13] at h; simp only at h
  injection h with h
  obtain ⟨a1, b1, c1, d1⟩ := intIn_ok _ _ _ _ e1
  obtain ⟨a2, b2, c2, d2⟩ := intIn_ok _ _ _ _ e2
  obtain ⟨a3, b3, c3, d3⟩ := intIn_ok _ _ _ _ e3
  obtain ⟨a4, b4, c4, d4⟩ := intIn_ok _ _ _ _ e4
  obtain ⟨wv0, hw1, hw2, hw3, hw4⟩ := volIn_ok _ _ e5
  obtain ⟨a6, b6, c6, d6⟩ := intIn_ok _ _ _ _ e6
  obtain ⟨cv0, hc1, hc2, hc3, hc4⟩ := volIn_ok _ _ e7
  obtain ⟨a8, b8, c8, d8⟩ := intIn_ok _ _ _ _ e8
  obtain ⟨a9, b9, c9, d9⟩ := intIn_ok _ _ _ _ e9
  obtain ⟨a10, b10, c10, d10⟩ := intIn_ok _ _ _ _ e10
  obtain ⟨a11, b11, c11, d11⟩ := intIn_ok _ _ _ _ e11
  obtain ⟨a12, b12, c12, d12⟩ := intIn_ok _ _ _ _ e12
  obtain ⟨a13, b13, c13, d13⟩ := intIn_ok _ _ _ _ e13
  subst d1 d2 d3 d4 hw4 d6 hc4 d8 d9 d10 d11 d12 d13
  refine ⟨tipVals, wv0, cv0, rfl, by simpa using h1, by simpa using h2, ⟨a1, b1, c1⟩, ⟨a2, b2, c2⟩, ⟨a3, b3, c3⟩,
    ⟨a4, b4, c4⟩, Decidable.not_not.1 h3, ⟨hw1, hw2, hw3⟩, ⟨hc1, hc2, hc3⟩, ⟨a6, b6, c6⟩, ⟨a8, b8, c8⟩, ⟨a9, b9, c9⟩,
    ⟨a10, b10, c10⟩, ⟨a11, b11, c11⟩, ⟨a12, b12, c12⟩, ⟨a13, b13, c13⟩, h.symm⟩

/-- What `evo_wash` requires of its arguments. -/
def WashAcceptable (a : EvoWashArgs) : Prop := ∃ f, evoWash a = .ok f

/-- Any out-of-range parameter makes `evo_wash` raise: e.g. a grid outside 1..67. -/
theorem evo_wash_rejects_grid (a : EvoWashArgs)
    (h : a.wasteGrid.bad = true ∨ a.wasteGrid.v < 1 ∨ 67 < a.wasteGrid.v ∨ a.cleanerGrid.bad = true
          ∨ a.cleanerGrid.v < 1 ∨ 67 < a.cleanerGrid.v) : ∃ e, evoWash a = .error e := by
  cases hp : evoWash a with
  | error e => exact ⟨e, rfl⟩
  | ok f =>
    obtain ⟨_, _, _, _, _, _, ⟨a1, b1, c1⟩, _, ⟨a3, b3, c3⟩, _⟩ := evo_wash_spec a f hp
    rcases h with h | h | h | h | h | h
    · rw [a1] at h; cases h
    · omega
    · omega
    · rw [a3] at h; cases h
    · omega
    · omega

/-- … a site outside 1..128, an arm other than 0/1, a volume outside 0..100, a delay outside 0..1000. -/
theorem evo_wash_rejects_other (a : EvoWashArgs)
    (h : a.wasteSite.v < 1 ∨ 128 < a.wasteSite.v ∨ a.cleanerSite.v < 1 ∨ 128 < a.cleanerSite.v
          ∨ ¬(a.arm = 0 ∨ a.arm = 1) ∨ a.wasteVol = none ∨ a.cleanerVol = none
          ∨ a.wasteDelay.v < 0 ∨ 1000 < a.wasteDelay.v ∨ a.cleanerDelay.v < 0 ∨ 1000 < a.cleanerDelay.v
          ∨ a.airgap.v < 0 ∨ 100 < a.airgap.v ∨ a.airgapSpeed.v < 1 ∨ 1000 < a.airgapSpeed.v
          ∨ a.retractSpeed.v < 1 ∨ 100 < a.retractSpeed.v ∨ a.fastwash.v < 0 ∨ 1 < a.fastwash.v
          ∨ a.lowVolume.v < 0 ∨ 1 < a.lowVolume.v) : ∃ e, evoWash a = .error e := by
  cases hp : evoWash a with
  | error e => exact ⟨e, rfl⟩
  | ok f =>
    obtain ⟨_, wv, cv, _, _, _, _, ⟨_, b2, c2⟩, _, ⟨_, b4, c4⟩, harm, ⟨hw, _, _⟩, ⟨hc, _, _⟩, ⟨_, b6, c6⟩, ⟨_, b8, c8⟩,
      ⟨_, b9, c9⟩, ⟨_, b10, c10⟩, ⟨_, b11, c11⟩, ⟨_, b12, c12⟩, ⟨_, b13, c13⟩, _⟩ := evo_wash_spec a f hp
    rcases h with h | h | h | h | h | h | h | h | h | h | h | h | h | h | h | h | h | h | h | h | h
    all_goals first
      | omega
      | exact absurd harm h
      | (rw [hw] at h; cases h)
      | (rw [hc] at h; cases h)

/-! ## Non-vacuity -/

example : (evoAD true {
      wells := .vec ["A01", "B01"], grid := 30, site := 2, tips := [.int 1, .int 2],
      volume := .list [10, 20], liquidClass := "Water", arm := 0 } 8 12 950).toOption.map (·.decode)
    = some [((0, 0), 1000), ((1, 0), 2000)] := by decide +kernel

end Robotools.C13
