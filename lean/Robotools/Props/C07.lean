/-
  C07 — transfers move each requested volume between the paired wells, one tip at a time.

  Planning reads no labware state: `compileTransfer` = fixed prologue ++ `transferPlan`'s steps
  compiled block by block ++ condensation.  The flow / discipline theorems are about the plan; the
  record-level theorems about the block each plan step compiles to.
-/
import Robotools.Props.C06
import Robotools.Props.C18
import Robotools.Model.World
namespace Robotools.C07
open Robotools

/-- Volume that the plan moves from well `s` to well `d`. -/
def planFlow (plan : List PlanStep) (s d : String) : Rat :=
  (plan.map fun st => match st with
    | .pair s' d' v => if s' = s ∧ d' = d then v else 0
    | _ => 0).sum

/-- Volume requested from well `s` to well `d`. -/
def reqFlow (ts : List Triple) (s d : String) : Rat :=
  (ts.map fun t => if t.src = s ∧ t.dst = d then t.vol else 0).sum

/-- Flows aggregated per (source well, destination well) equal exactly the requested ones —
    with splitting (`auto_split`, any `max_volume > 0`) … -/
theorem flows_split (M : Rat) (byDest : Bool) (ts : List Triple) (hM : 0 < M) (hnn : ∀ t ∈ ts, 0 ≤ t.vol) (s d : String) :
    planFlow (transferPlan true M byDest ts) s d = reqFlow ts s d := by
  sorry

/-- … and without. -/
theorem flows_nosplit (M : Rat) (byDest : Bool) (ts : List Triple) (hnn : ∀ t ∈ ts, 0 ≤ t.vol) (s d : String) :
    planFlow (transferPlan false M byDest ts) s d = reqFlow ts s d := by
  sorry

/-- Independent of the order in which the triples are listed … -/
theorem flows_perm (autoSplit : Bool) (M : Rat) (byDest : Bool) (ts ts' : List Triple) (hM : 0 < M)
    (hnn : ∀ t ∈ ts, 0 ≤ t.vol) (hp : ts.Perm ts') (s d : String) :
    planFlow (transferPlan autoSplit M byDest ts) s d = planFlow (transferPlan autoSplit M byDest ts') s d := by
  sorry

/-- … and of the partition_by mode. -/
theorem flows_mode_indep (autoSplit : Bool) (M : Rat) (ts : List Triple) (hM : 0 < M)
    (hnn : ∀ t ∈ ts, 0 ≤ t.vol) (s d : String) :
    planFlow (transferPlan autoSplit M true ts) s d = planFlow (transferPlan autoSplit M false ts) s d := by
  sorry

/-- Discipline: every pair is immediately followed by the tip action, and every tip action
    immediately follows a pair. -/
theorem discipline (autoSplit : Bool) (M : Rat) (byDest : Bool) (ts : List Triple) (i : Nat) :
    let plan := transferPlan autoSplit M byDest ts
    (∀ s d v, plan[i]? = some (.pair s d v) → plan[i + 1]? = some .action)
    ∧ (plan[i + 1]? = some .action → ∃ s d v, plan[i]? = some (.pair s d v))
    ∧ plan[0]? ≠ some .action := by
  sorry

/-- Every emitted step is positive, and with `auto_split` none exceeds `max_volume`. -/
theorem pair_volume_bounds (M : Rat) (byDest : Bool) (ts : List Triple) (hM : 0 < M) (s d : String) (v : Rat)
    (h : PlanStep.pair s d v ∈ transferPlan true M byDest ts) : 0 < v ∧ v ≤ M := by
  sorry

/-- A break record closes every column group in which a volume had to be split. -/
theorem break_closes (g : List Triple) (vls : List (List Rat)) (h : 1 < maxLen vls) :
    (groupPlan g vls).getLast? = some .brk := by
  sorry

theorem no_break_without_split (g : List Triple) (vls : List (List Rat)) (h : maxLen vls ≤ 1) :
    PlanStep.brk ∉ groupPlan g vls := by
  sorry

/-- The requested tip action. -/
theorem action_records (cfg : Cfg) :
    actionMicros cfg .flush = [.emit .flush] ∧ actionMicros cfg .reuse = []
    ∧ (cfg.ditiMode = true → ∀ n, actionMicros cfg (.scheme n) = [.emit .washDiti])
    ∧ (cfg.ditiMode = false → ∀ n : Nat, n ∈ [1, 2, 3, 4] → actionMicros cfg (.scheme n) = [.emit (.wash n)])
    ∧ (cfg.ditiMode = false → ∀ n : Int, (n < 1 ∨ 4 < n) → actionMicros cfg (.scheme n) = [.fail .valueErr]) := by
  sorry

/-- Both records of a pair carry the same volume, liquid class and tip mask (they are prepared
    from the same volume and keyword arguments). -/
theorem pair_same_fields (a₁ a₂ : ADArgs) (M : Option Rat) (f₁ f₂ : ADFields)
    (hv : a₁.vol = a₂.vol) (hl : a₁.liquidClass = a₂.liquidClass) (ht : tipMask a₁.tip = tipMask a₂.tip)
    (h₁ : prepareAD a₁ M = .ok f₁) (h₂ : prepareAD a₂ M = .ok f₂) :
    f₁.vol = f₂.vol ∧ f₁.liquidClass = f₂.liquidClass ∧ f₁.tip = f₂.tip := by
  sorry

/-- Argument lists of incompatible lengths or negative volumes are rejected, not silently dropped. -/
theorem rejects_lengths (cfg : Cfg) (S D : Labware) (src dst : Nat) (sw dw : Arr String) (vols : Arr Rat)
    (label : Option String) (wash : WashArg) (pb : String) (kw : KW) (hdev : cfg.dev ≠ .base)
    (h : let n := max sw.flattenF.length (max dw.flattenF.length vols.flattenF.length)
         ¬((broadcast1 sw.flattenF n).length = (broadcast1 dw.flattenF n).length
            ∧ (broadcast1 dw.flattenF n).length = (broadcast1 vols.flattenF n).length)) :
    compileTransfer cfg S src sw D dst dw vols label wash pb kw = [.fail .reject] := by
  sorry

theorem rejects_negative (cfg : Cfg) (S D : Labware) (src dst : Nat) (sw dw : Arr String) (vols : Arr Rat)
    (label : Option String) (wash : WashArg) (pb : String) (kw : KW) (hdev : cfg.dev ≠ .base)
    (hlen : let n := max sw.flattenF.length (max dw.flattenF.length vols.flattenF.length)
         ((broadcast1 sw.flattenF n).length = (broadcast1 dw.flattenF n).length
            ∧ (broadcast1 dw.flattenF n).length = (broadcast1 vols.flattenF n).length))
    (hneg : ∃ v ∈ broadcast1 vols.flattenF (max sw.flattenF.length (max dw.flattenF.length vols.flattenF.length)), v < 0) :
    compileTransfer cfg S src sw D dst dw vols label wash pb kw = [.fail .valueErr] := by
  sorry

/-- The generic base worklist refuses transfers. -/
theorem base_refuses_transfer (cfg : Cfg) (S D : Labware) (src dst : Nat) (sw dw : Arr String) (vols : Arr Rat)
    (label : Option String) (wash : WashArg) (pb : String) (kw : KW) (hdev : cfg.dev = .base) :
    compileTransfer cfg S src sw D dst dw vols label wash pb kw = [.fail .reject] := by
  sorry

example : transferPlan true 950 false [⟨"A01", "B01", 2000⟩]
    = [.pair "A01" "B01" 667, .action, .pair "A01" "B01" 667, .action, .pair "A01" "B01" 666, .action, .brk] := by
  decide +kernel

end Robotools.C07
