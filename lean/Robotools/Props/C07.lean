/-
  C07 — transfers move each requested volume between the paired wells, one tip at a time.

  Planning reads no labware state: `compileTransfer` = fixed prologue ++ `transferPlan`'s steps
  compiled block by block ++ condensation.  The flow / discipline theorems are about the plan; the
  record-level theorems about the block each plan step compiles to.
-/
import Robotools.Props.C06
import Robotools.Props.C18
import Robotools.Model.World
import Robotools.Proofs.FlowLemmas
namespace Robotools.C07
open Robotools

/-- Volume that the plan moves from well `s` to well `d`. -/
def planFlow (plan : List PlanStep) (s d : String) : Rat :=
  (plan.map fun st => match st with
    | .pair s' d' v => if s' = s ∧ d' = d then v else 0
    | _ => 0).sum

/-- Volume requested from well `s` to well `d`. -/
def reqFlow (ts : List Triple) (s d : String) : Rat :=
  (ts.map fun t => if t.src = s ∧ t.dst = d then t.vol else 0).sum

private theorem planFlow_eq (plan : List PlanStep) (s d : String) :
    planFlow plan s d = flowOf s d plan := by
  unfold planFlow flowOf
  congr 1

private theorem reqFlow_eq (ts : List Triple) (s d : String) : reqFlow ts s d = reqOf s d ts := rfl

/-- Flows aggregated per (source well, destination well) equal exactly the requested ones —
    with splitting (`auto_split`, any `max_volume > 0`) … -/
theorem flows_split (M : Rat) (byDest : Bool) (ts : List Triple) (hM : 0 < M) (hnn : ∀ t ∈ ts, 0 ≤ t.vol) (s d : String) :
    planFlow (transferPlan true M byDest ts) s d = reqFlow ts s d := by
  rw [planFlow_eq, reqFlow_eq]
  exact flowOf_transferPlan true M byDest ts (fun _ => hM) hnn s d

/-- … and without. -/
theorem flows_nosplit (M : Rat) (byDest : Bool) (ts : List Triple) (hnn : ∀ t ∈ ts, 0 ≤ t.vol) (s d : String) :
    planFlow (transferPlan false M byDest ts) s d = reqFlow ts s d := by
  rw [planFlow_eq, reqFlow_eq]
  exact flowOf_transferPlan false M byDest ts (fun h => by cases h) hnn s d

/-- Independent of the order in which the triples are listed … -/
theorem flows_perm (autoSplit : Bool) (M : Rat) (byDest : Bool) (ts ts' : List Triple) (hM : 0 < M)
    (hnn : ∀ t ∈ ts, 0 ≤ t.vol) (hp : ts.Perm ts') (s d : String) :
    planFlow (transferPlan autoSplit M byDest ts) s d = planFlow (transferPlan autoSplit M byDest ts') s d := by
  have hnn' : ∀ t ∈ ts', 0 ≤ t.vol := fun t ht => hnn t (hp.mem_iff.mpr ht)
  rw [planFlow_eq, planFlow_eq, flowOf_transferPlan autoSplit M byDest ts (fun _ => hM) hnn s d,
    flowOf_transferPlan autoSplit M byDest ts' (fun _ => hM) hnn' s d]
  exact reqOf_perm s d hp

/-- … and of the partition_by mode. -/
theorem flows_mode_indep (autoSplit : Bool) (M : Rat) (ts : List Triple) (hM : 0 < M)
    (hnn : ∀ t ∈ ts, 0 ≤ t.vol) (s d : String) :
    planFlow (transferPlan autoSplit M true ts) s d = planFlow (transferPlan autoSplit M false ts) s d := by
  rw [planFlow_eq, planFlow_eq, flowOf_transferPlan autoSplit M true ts (fun _ => hM) hnn s d,
    flowOf_transferPlan autoSplit M false ts (fun _ => hM) hnn s d]

/-- Discipline: every pair is immediately followed by the tip action, and every tip action
    immediately follows a pair. -/
theorem discipline (autoSplit : Bool) (M : Rat) (byDest : Bool) (ts : List Triple) (i : Nat) :
    let plan := transferPlan autoSplit M byDest ts
    (∀ s d v, plan[i]? = some (.pair s d v) → plan[i + 1]? = some .action)
    ∧ (plan[i + 1]? = some .action → ∃ s d v, plan[i]? = some (.pair s d v))
    ∧ plan[0]? ≠ some .action := by
  exact (blocks_transferPlan autoSplit M byDest ts).discipline i

/-- Every emitted step is positive, and with `auto_split` none exceeds `max_volume`. -/
theorem pair_volume_bounds (M : Rat) (byDest : Bool) (ts : List Triple) (hM : 0 < M) (s d : String) (v : Rat)
    (h : PlanStep.pair s d v ∈ transferPlan true M byDest ts) : 0 < v ∧ v ≤ M := by
  exact pair_bounds_transferPlan M byDest ts hM s d v h

/-- A break record closes every column group in which a volume had to be split. -/
theorem break_closes (g : List Triple) (vls : List (List Rat)) (h : 1 < maxLen vls) :
    (groupPlan g vls).getLast? = some .brk := by
  unfold groupPlan
  simp only [h, if_true]
  exact List.getLast?_concat

theorem no_break_without_split (g : List Triple) (vls : List (List Rat)) (h : maxLen vls ≤ 1) :
    PlanStep.brk ∉ groupPlan g vls := by
  have hn : ¬ 1 < maxLen vls := by omega
  unfold groupPlan
  simp [hn]

/-- The requested tip action. -/
theorem action_records (cfg : Cfg) :
    actionMicros cfg .flush = [.emit .flush] ∧ actionMicros cfg .reuse = []
    ∧ (cfg.ditiMode = true → ∀ n, actionMicros cfg (.scheme n) = [.emit .washDiti])
    ∧ (cfg.ditiMode = false → ∀ n : Nat, n ∈ [1, 2, 3, 4] → actionMicros cfg (.scheme n) = [.emit (.wash n)])
    ∧ (cfg.ditiMode = false → ∀ n : Int, (n < 1 ∨ 4 < n) → actionMicros cfg (.scheme n) = [.fail .valueErr]) := by
  refine ⟨rfl, rfl, ?_, ?_, ?_⟩
  · intro hd n
    simp [actionMicros, washMicros, hd]
  · intro hd n hn
    simp only [List.mem_cons, List.mem_nil_iff, or_false] at hn
    rcases hn with rfl | rfl | rfl | rfl <;> simp [actionMicros, washMicros, hd, Spec.washSchemes]
  · intro hd n hn
    simp only [actionMicros, washMicros, hd, Bool.false_eq_true, if_false]
    rw [if_neg]
    simp only [Spec.washSchemes, List.contains_eq_mem, List.mem_cons, List.mem_nil_iff, or_false,
      decide_eq_true_eq]
    omega

/-- Both records of a pair carry the same volume, liquid class and tip mask (they are prepared
    from the same volume and keyword arguments). -/
theorem pair_same_fields (a₁ a₂ : ADArgs) (M : Option Rat) (f₁ f₂ : ADFields)
    (hv : a₁.vol = a₂.vol) (hl : a₁.liquidClass = a₂.liquidClass) (ht : tipMask a₁.tip = tipMask a₂.tip)
    (h₁ : prepareAD a₁ M = .ok f₁) (h₂ : prepareAD a₂ M = .ok f₂) :
    f₁.vol = f₂.vol ∧ f₁.liquidClass = f₂.liquidClass ∧ f₁.tip = f₂.tip := by
  obtain ⟨hv₁, hl₁, ht₁⟩ := prepareAD_ok a₁ M f₁ h₁
  obtain ⟨hv₂, hl₂, ht₂⟩ := prepareAD_ok a₂ M f₂ h₂
  refine ⟨by rw [hv₁, hv₂, hv], by rw [hl₁, hl₂, hl], ?_⟩
  rw [ht, ht₂] at ht₁
  exact (Except.ok.inj ht₁).symm

/-- Argument lists of incompatible lengths or negative volumes are rejected, not silently dropped. -/
theorem rejects_lengths (cfg : Cfg) (S D : Labware) (src dst : Nat) (sw dw : Arr String) (vols : Arr Rat)
    (label : Option String) (wash : WashArg) (pb : String) (kw : KW) (hdev : cfg.dev ≠ .base)
    (h : let n := max sw.flattenF.length (max dw.flattenF.length vols.flattenF.length)
         ¬((broadcast1 sw.flattenF n).length = (broadcast1 dw.flattenF n).length
            ∧ (broadcast1 dw.flattenF n).length = (broadcast1 vols.flattenF n).length)) :
    compileTransfer cfg S src sw D dst dw vols label wash pb kw = [.fail .reject] := by
  unfold compileTransfer
  rw [if_neg hdev]
  simp only at h ⊢
  rw [if_pos h]

theorem rejects_negative (cfg : Cfg) (S D : Labware) (src dst : Nat) (sw dw : Arr String) (vols : Arr Rat)
    (label : Option String) (wash : WashArg) (pb : String) (kw : KW) (hdev : cfg.dev ≠ .base)
    (hlen : let n := max sw.flattenF.length (max dw.flattenF.length vols.flattenF.length)
         ((broadcast1 sw.flattenF n).length = (broadcast1 dw.flattenF n).length
            ∧ (broadcast1 dw.flattenF n).length = (broadcast1 vols.flattenF n).length))
    (hneg : ∃ v ∈ broadcast1 vols.flattenF (max sw.flattenF.length (max dw.flattenF.length vols.flattenF.length)), v < 0) :
    compileTransfer cfg S src sw D dst dw vols label wash pb kw = [.fail .valueErr] := by
  unfold compileTransfer
  rw [if_neg hdev]
  simp only at hlen ⊢
  rw [if_neg (not_not.mpr hlen)]
  have hany : (broadcast1 vols.flattenF (max sw.flattenF.length (max dw.flattenF.length vols.flattenF.length))).any
      (· < 0) = true := by
    obtain ⟨v, hv, hneg⟩ := hneg
    exact List.any_eq_true.mpr ⟨v, hv, by simpa using hneg⟩
  rw [if_pos hany]

/-- The generic base worklist refuses transfers. -/
theorem base_refuses_transfer (cfg : Cfg) (S D : Labware) (src dst : Nat) (sw dw : Arr String) (vols : Arr Rat)
    (label : Option String) (wash : WashArg) (pb : String) (kw : KW) (hdev : cfg.dev = .base) :
    compileTransfer cfg S src sw D dst dw vols label wash pb kw = [.fail .reject] := by
  unfold compileTransfer
  rw [if_pos hdev]

example : transferPlan true 950 false [⟨"A01", "B01", 2000⟩]
    = [.pair "A01" "B01" 667, .action, .pair "A01" "B01" 667, .action, .pair "A01" "B01" 666, .action, .brk] := by
  decide +kernel

end Robotools.C07
