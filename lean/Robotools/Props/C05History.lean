/-
  C05, whole histories — the per-step theorems of `Props/C05.lean` lifted to every program of
  transfers (any shape, within or between labware, with or without splitting) plus record-only
  operations, by the block induction of `Proofs/AmtLemmas.lean`:

  * the representation invariant, the range `[0, 1]` of every fraction and the normalisation
    (fractions sum to 1 in every non-empty well) hold in the state every such program ends in;
  * the tracked composition is the ideal volumetric mixture: an independent interpreter that moves
    absolute amounts with the liquid (and knows nothing of fractions) ends with exactly
    `fraction × volume` of every component in every real well.
-/
import Robotools.Props.C01
import Robotools.Props.C01Dist
import Robotools.Proofs.CtorGood
namespace Robotools.C05
open Robotools RP C03

/-- **C05 (whole histories, normalisation and range).**  After every program of traceable operations
    that runs to the end from good labware (limits respected, well-formed composition table, fractions of
    every well summing to 1 unless the well is empty and never held anything — what the constructors
    establish), every labware is good again; in particular in every real well the fractions are within
    `[0, 1]` and sum to 1 whenever the well is not empty. -/
theorem history_normalised (w₀ : World) (hwf : WF w₀) (hgood : Amt.Good w₀) (h0 : w₀.recs = [])
    (ops : List Op) (hops : ∀ op ∈ ops, Amt.traceable op = true) (hok : (w₀.run ops).2 = none) :
    ∀ L ∈ (w₀.run ops).1.labs, CompValid L ∧ ∀ i, i < L.vols.length →
      (0 < L.vol i → fracSum L i = 1) ∧ ∀ k, 0 ≤ L.frac i k ∧ L.frac i k ≤ 1 := by
  intro L hL
  obtain ⟨_, hc, hm⟩ := (C01.replay_composition w₀ hwf hgood h0 ops hops hok).2 L hL
  refine ⟨hc, fun i hi => ⟨fun hpos => ?_, fun k => ?_⟩⟩
  · rcases hm i hi with h1 | ⟨_, h0'⟩
    · exact h1
    · rw [h0'] at hpos; exact absurd hpos (lt_irrefl _)
  · rw [Mix.frac_eq]
    refine ⟨Mix.fracC_nonneg _ _ _ hc.nonneg, ?_⟩
    have hle := Mix.fracC_le_colSum L.comp i k hc.nonneg
    rw [← fracSum_eq] at hle
    rcases hm i hi with h1 | ⟨h0', _⟩
    · rw [h1] at hle; exact hle
    · rw [h0'] at hle; linarith

/-- **C05 (whole histories, ideal mixing).**  The tracked fractions are the exact volume-weighted
    mixture: replaying the emitted records with an interpreter of absolute amounts reproduces, in every
    real well and for every component, `fraction × volume` (`Amt.AmtOK`, read well by well with
    `C01.amount_well`). -/
theorem history_ideal_mixture (w₀ : World) (hwf : WF w₀) (hgood : Amt.Good w₀) (h0 : w₀.recs = [])
    (ops : List Op) (hops : ∀ op ∈ ops, Amt.traceable op = true) (hok : (w₀.run ops).2 = none) :
    ∃ st, (RState.ofLabs w₀.labs).run w₀.cfg.dev (w₀.run ops).1.recs = some st
      ∧ ∀ (l : Nat) (L : Labware), (w₀.run ops).1.labs[l]? = some L → ∀ i : Nat, i < L.vols.length →
        ∃ (R : RLab) (wl : RWell), st.labs[l]? = some R ∧ R.wells[i]? = some wl ∧ wl.vol = L.vol i
          ∧ ∀ k, amtOf wl.amts k = amount L i k := by
  obtain ⟨⟨st, hrun, hM, hA⟩, _⟩ := C01.replay_composition w₀ hwf hgood h0 ops hops hok
  exact ⟨st, hrun, fun l L hL i hi => C01.amount_well hM hA l L hL i hi⟩

/-- The same two statements for histories that also contain `distribute` calls (static side
    conditions `C01D.DistOKI`; on an EVO: `C01D.traceableEvo`, nothing assumed about the destination wells). -/
theorem history_normalised_dist (w₀ : World) (hwf : WF w₀) (hgood : Amt.Good w₀) (h0 : w₀.recs = [])
    (ops : List Op) (hops : ∀ op ∈ ops, C01D.traceableI (info w₀) w₀.cfg.dev op)
    (hok : (w₀.run ops).2 = none) :
    ∀ L ∈ (w₀.run ops).1.labs, CompValid L ∧ ∀ i, i < L.vols.length →
      (0 < L.vol i → fracSum L i = 1) ∧ ∀ k, 0 ≤ L.frac i k ∧ L.frac i k ≤ 1 := by
  intro L hL
  obtain ⟨_, hc, hm⟩ := (C01D.replay_composition_dist w₀ hwf hgood h0 ops hops hok).2 L hL
  refine ⟨hc, fun i hi => ⟨fun hpos => ?_, fun k => ?_⟩⟩
  · rcases hm i hi with h1 | ⟨_, h0'⟩
    · exact h1
    · rw [h0'] at hpos; exact absurd hpos (lt_irrefl _)
  · rw [Mix.frac_eq]
    refine ⟨Mix.fracC_nonneg _ _ _ hc.nonneg, ?_⟩
    have hle := Mix.fracC_le_colSum L.comp i k hc.nonneg
    rw [← fracSum_eq] at hle
    rcases hm i hi with h1 | ⟨h0', _⟩
    · rw [h1] at hle; exact hle
    · rw [h0'] at hle; linarith

theorem history_ideal_mixture_dist (w₀ : World) (hwf : WF w₀) (hgood : Amt.Good w₀) (h0 : w₀.recs = [])
    (ops : List Op) (hops : ∀ op ∈ ops, C01D.traceableI (info w₀) w₀.cfg.dev op)
    (hok : (w₀.run ops).2 = none) :
    ∃ st, (RState.ofLabs w₀.labs).run w₀.cfg.dev (w₀.run ops).1.recs = some st
      ∧ ∀ (l : Nat) (L : Labware), (w₀.run ops).1.labs[l]? = some L → ∀ i : Nat, i < L.vols.length →
        ∃ (R : RLab) (wl : RWell), st.labs[l]? = some R ∧ R.wells[i]? = some wl ∧ wl.vol = L.vol i
          ∧ ∀ k, amtOf wl.amts k = amount L i k := by
  obtain ⟨⟨st, hrun, hM, hA⟩, _⟩ := C01D.replay_composition_dist w₀ hwf hgood h0 ops hops hok
  exact ⟨st, hrun, fun l L hL i hi => C01.amount_well hM hA l L hL i hi⟩

/-- The hypothesis `Amt.Good` of the whole-history theorems is what the constructors establish: every
    labware returned by `Labware(...)` / `Trough(...)` respects its limits, has a well-formed composition
    table (one array per distinct component, all of the labware's size, no negative entry) and, in every
    real well, fractions summing to 1 (initially filled: 100 % of one component) or to 0 (empty). -/
theorem constructed_good (w : World)
    (h : ∀ L ∈ w.labs, (∃ s, Labware.mk? s = .ok L) ∨ (∃ s, Trough.mk? s = .ok L)) : Amt.Good w := by
  intro L hL
  rcases h L hL with ⟨s, hs⟩ | ⟨s, hs⟩
  · exact CtorGood.mk_good s L hs
  · exact CtorGood.trough_mk_good s L hs

end Robotools.C05
