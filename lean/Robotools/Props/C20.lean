/-
  C20 — every labware the constructors accept is internally consistent; specifications that cannot
  be represented raise ValueError.
-/
import Robotools.Props.C02
import Robotools.Proofs.CtorLemmas
namespace Robotools.C20
open Robotools

/-- What "internally consistent" means for a constructed labware. -/
structure Consistent (L : Labware) : Prop where
  rows_pos : 0 < L.geom.rows
  cols_pos : 0 < L.geom.cols
  rows_le : L.geom.rows ≤ 26                       -- no more rows than row letters
  vrows_ok : ∀ v, L.geom.vrows = some v → L.geom.rows = 1 ∧ 1 ≤ v ∧ v ≤ 26
  size : L.vols.length = L.geom.rows * L.geom.cols  -- volume array = real rows × columns
  limits : 0 ≤ L.minV ∧ L.minV < L.maxV
  range : ∀ v ∈ L.vols, 0 ≤ v ∧ v ≤ L.maxV
  hist : L.hist = [(some "initial", L.vols)]        -- history = exactly the initial state
  comp_len : ∀ p ∈ L.comp, p.2.length = L.vols.length
  comp_keys : (L.comp.map (·.1)).Nodup
  /-- one 100 % component for precisely the initially non-empty wells -/
  onehot : ∀ i, i < L.vols.length →
    (L.vol i = 0 → ∀ k, L.frac i k = 0) ∧
    (L.vol i ≠ 0 → ∃ k, L.frac i k = 1 ∧ ∀ k', k' ≠ k → L.frac i k' = 0)

/-- The ID table describes the same grid: it has `nRowIds * cols` entries (virtual rows only in the
    IDs) and every entry points at a real well. -/
theorem table_grid (g : Geom) :
    g.table.length = g.nRowIds * g.cols
    ∧ ∀ p ∈ g.table, p.2.2 < g.cols ∧ (g.isTrough = true → p.2.1 = 0) ∧ (g.isTrough = false → p.2.1 < g.nRowIds) := by
  refine ⟨g.table_length, ?_⟩
  intro p hp
  obtain ⟨r, c, hr, hc, rfl⟩ := (g.mem_table p).1 hp
  refine ⟨hc, ?_, ?_⟩
  · intro ht; simp [ht]
  · intro ht; simpa [ht] using hr

/-! Helper facts about the flat initial-volume list and the real wells. -/

private theorem realWells_length (g : Geom) (hle : g.rows ≤ 26)
    (hv : ∀ v, g.vrows = some v → g.rows = 1) : (realWellsOf g).length = g.rows * g.cols := by
  unfold realWellsOf
  cases hvr : g.vrows with
  | none =>
    simp only [Option.isSome_none, Bool.false_eq_true, if_false]
    rw [g.wells_length]
    simp only [Geom.nRowIds, hvr]
    rw [Nat.min_eq_right hle]
  | some v =>
    simp [hv v hvr]

private theorem mem_flatOf {a : Arr InitVal} {x : InitVal} {n : Nat} (hx : x ∈ a.flattenC) (hn : 0 < n) :
    x ∈ flatOf (some a) n := by
  cases a with
  | scalar b =>
    simp only [Arr.flattenC, List.mem_singleton] at hx
    subst hx
    show x ∈ List.replicate n x
    exact List.mem_replicate.mpr ⟨by omega, rfl⟩
  | vec l => exact hx
  | mat r c l => exact hx

private theorem flat_some {flat : List InitVal}
    (h : ¬ (flat.any fun x => match x with | none => true | some q => decide (q < 0)) = true)
    {x : InitVal} (hx : x ∈ flat) : ∃ q, x = some q ∧ 0 ≤ q := by
  cases x with
  | none => exact absurd (List.any_eq_true.mpr ⟨none, hx, rfl⟩) h
  | some q =>
    refine ⟨q, rfl, Rat.not_lt.mp ?_⟩
    intro hlt
    exact h (List.any_eq_true.mpr ⟨some q, hx, by simpa using hlt⟩)

private theorem consistent_of_inv {s : PlateSpec} {L : Labware} (I : MkInv s L) (V : C02.LabValid L) :
    Consistent L := by
  have hvr : ∀ v, L.geom.vrows = some v → L.geom.rows = 1 ∧ 1 ≤ v ∧ v ≤ 26 := by
    intro v hv
    cases hs : s.vrows with
    | none => rw [I.vrows_none hs] at hv; cases hv
    | some sv =>
      obtain ⟨h1, n, -, hn1, hn2, hn⟩ := I.vrows_some sv hs
      rw [hn] at hv
      cases hv
      exact ⟨h1, by omega, by omega⟩
  have hsize : L.vols.length = L.geom.rows * L.geom.cols := by
    rw [I.vols_eq, List.length_map, I.flat_len]
  have hn : (realWellsOf L.geom).length = L.vols.length := by
    rw [hsize]
    exact realWells_length L.geom I.rows_le (fun v hv => (hvr v hv).1)
  have G := initialComposition_spec _ _ _ _ _ _ I.comp_eq
  rw [hn] at G
  refine ⟨I.rows_pos, I.cols_pos, I.rows_le, hvr, hsize, ⟨V.min_nonneg, V.min_lt_max⟩, V.range,
    I.hist_eq, G.lens, G.nodup, ?_⟩
  intro i hi
  exact ⟨fun h0 k => G.zero i hi h0 k, fun h0 => G.one i hi h0⟩

/-- Accepted plate specifications give a consistent labware with the initial volumes laid out as
    given: scalar broadcast, row-major reshape of flat lists / 2-D arrays. -/
theorem mk_ok (s : PlateSpec) (L : Labware) (h : Labware.mk? s = .ok L) : Consistent L :=
  consistent_of_inv (Labware.mk?_inv h) (C02.mk_valid s L h)

theorem mk_layout_scalar (s : PlateSpec) (L : Labware) (q : Rat) (h : Labware.mk? s = .ok L)
    (hinit : s.init = some (.scalar (some q))) : ∀ v ∈ L.vols, v = q := by
  intro v hv
  rw [(Labware.mk?_inv h).vols_eq, hinit] at hv
  simp only [flatOf, List.map_replicate, List.mem_replicate] at hv
  exact hv.2

theorem mk_layout_flat (s : PlateSpec) (L : Labware) (l : List InitVal) (h : Labware.mk? s = .ok L)
    (hinit : s.init = some (.vec l)) : L.vols.map some = l := by
  have I := Labware.mk?_inv h
  have hnn := I.flat_nonneg
  rw [I.vols_eq, hinit]
  rw [hinit] at hnn
  simp only [flatOf, Arr.flattenC] at hnn ⊢
  rw [List.map_map]
  conv => rhs; rw [← List.map_id l]
  apply List.map_congr_left
  intro x hx
  obtain ⟨q, rfl, -⟩ := flat_some hnn hx
  rfl

theorem mk_layout_none (s : PlateSpec) (L : Labware) (h : Labware.mk? s = .ok L)
    (hinit : s.init = none) : ∀ v ∈ L.vols, v = 0 := by
  intro v hv
  rw [(Labware.mk?_inv h).vols_eq, hinit] at hv
  simp only [flatOf, List.map_replicate, List.mem_replicate] at hv
  exact hv.2

/-- Accepted trough specifications: one real row, per-column initial volumes. -/
theorem trough_mk_ok (s : TroughSpec) (L : Labware) (h : Trough.mk? s = .ok L) :
    Consistent L ∧ L.geom.rows = 1 ∧ L.geom.vrows.isSome := by
  obtain ⟨p, -, hv, hp⟩ := Trough.mk?_inv h
  obtain ⟨h1, n, -, -, -, hn⟩ := (Labware.mk?_inv hp).vrows_some _ hv
  exact ⟨mk_ok p L hp, h1, by rw [hn]; rfl⟩

/-- Every rejection is a ValueError. -/
theorem mk_error_is_valueErr (s : PlateSpec) (e : Err) (h : Labware.mk? s = .error e) : e = .valueErr :=
  Labware.mk?_error h

theorem trough_mk_error_is_valueErr (s : TroughSpec) (e : Err) (h : Trough.mk? s = .error e) : e = .valueErr :=
  Trough.mk?_error h

/-- The unrepresentable specifications of the statement are rejected. -/
def Unrepresentable (s : PlateSpec) : Prop :=
  (∀ n, s.rows ≠ .int n) ∨ (∃ n, s.rows = .int n ∧ (n < 1 ∨ 26 < n))            -- non-integer / non-positive / too many rows
  ∨ (∀ n, s.cols ≠ .int n) ∨ (∃ n, s.cols = .int n ∧ n < 1)
  ∨ s.minV < 0 ∨ s.maxV ≤ s.minV
  ∨ (∃ v, s.vrows = some v ∧ s.rows ≠ .int 1)                                     -- virtual rows on multi-row labware
  ∨ (∃ a, s.init = some a ∧ (∃ x ∈ a.flattenC, x = none ∨ ∃ q, x = some q ∧ (q < 0 ∨ s.maxV < q)))  -- NaN, negative, too large

theorem mk_rejects (s : PlateSpec) (h : Unrepresentable s) : Labware.mk? s = .error .valueErr := by
  cases hm : Labware.mk? s with
  | error e => rw [Labware.mk?_error hm]
  | ok L =>
    exfalso
    have I := Labware.mk?_inv hm
    have hR1 := I.rows_pos
    have hR26 := I.rows_le
    have hC1 := I.cols_pos
    rcases h with h | ⟨n, hn, h⟩ | h | ⟨n, hn, h⟩ | h | h | ⟨v, hv, h⟩ | ⟨a, ha, x, hx, h⟩
    · exact h _ I.rows_eq
    · rw [I.rows_eq] at hn
      cases hn
      omega
    · exact h _ I.cols_eq
    · rw [I.cols_eq] at hn
      cases hn
      omega
    · exact I.min_ok h
    · exact I.max_ok h
    · obtain ⟨h1, -⟩ := I.vrows_some v hv
      apply h
      rw [I.rows_eq, h1]
      rfl
    · have hpos : 0 < L.geom.rows * L.geom.cols := Nat.mul_pos hR1 hC1
      have hmem : x ∈ flatOf s.init (L.geom.rows * L.geom.cols) := by
        rw [ha]; exact mem_flatOf hx hpos
      obtain ⟨q, rfl, hq0⟩ := flat_some I.flat_nonneg hmem
      rcases h with h | ⟨q', hq', h | h⟩
      · cases h
      · cases hq'
        exact absurd hq0 (Rat.not_le.mpr h)
      · cases hq'
        apply I.vols_le
        refine List.any_eq_true.mpr ⟨q, ?_, by simpa using h⟩
        rw [I.vols_eq]
        exact List.mem_map.mpr ⟨some q, hmem, rfl⟩

/-- Wrong number of initial volumes. -/
theorem mk_rejects_length (s : PlateSpec) (R C : Nat) (l : List InitVal)
    (hr : s.rows = .int R) (hc : s.cols = .int C) (hinit : s.init = some (.vec l)) (hlen : l.length ≠ R * C) :
    Labware.mk? s = .error .valueErr := by
  cases hm : Labware.mk? s with
  | error e => rw [Labware.mk?_error hm]
  | ok L =>
    exfalso
    have I := Labware.mk?_inv hm
    have h1 := I.rows_eq
    have h2 := I.cols_eq
    have h3 := I.flat_len
    rw [hr] at h1
    rw [hc] at h2
    rw [hinit] at h3
    cases h1
    cases h2
    exact hlen h3

/-- Names for unknown wells or for empty wells. -/
theorem initialComposition_rejects_unknown (name : String) (n : Nat) (wells : List String)
    (names : List (String × Option String)) (init : List Rat) (k : String) (v : Option String)
    (hk : (k, v) ∈ names) (hunk : k ∉ wells) :
    initialComposition name n wells names init = .error .valueErr := by
  have hany : (names.any fun x => match x with | (k, _) => !wells.contains k) = true := by
    refine List.any_eq_true.mpr ⟨(k, v), hk, ?_⟩
    simpa using hunk
  simp only [initialComposition, bind, Except.bind, throw, throwThe, MonadExceptOf.throw, hany,
    if_true]

/-- Default component names are distinct for distinct wells of a multi-row plate and distinct
    columns of a multi-column trough. -/
theorem default_names_distinct (name : String) (r₁ c₁ r₂ c₂ : Nat) (h₁ : r₁ < 26) (h₂ : r₂ < 26)
    (h : name ++ "." ++ wellId r₁ c₁ = name ++ "." ++ wellId r₂ c₂) : r₁ = r₂ ∧ c₁ = c₂ := by
  rw [String.append_right_inj] at h
  exact wellId_injective h₁ h₂ h

theorem default_column_names_distinct (name : String) (c₁ c₂ : Nat)
    (h : name ++ ".column_" ++ String.ofList (pad2 (c₁ + 1)) = name ++ ".column_" ++ String.ofList (pad2 (c₂ + 1))) :
    c₁ = c₂ := by
  rw [String.append_right_inj] at h
  have := pad2_inj (String.ofList_injective h)
  omega

example : (Labware.mk? { name := "P", rows := .int 27, cols := .int 2, minV := 0, maxV := 10, init := none, vrows := none, names := [] }).toOption.isNone = true := by
  decide +kernel
example : ((Labware.mk? { name := "P", rows := .int 2, cols := .int 2, minV := 0, maxV := 10, init := some (.scalar (some 5)), vrows := none, names := [] }).toOption.map (·.vols)) = some [5, 5, 5, 5] := by
  decide +kernel

end Robotools.C20
