/-
  C20 — every labware the constructors accept is internally consistent; specifications that cannot
  be represented raise ValueError.
-/
import Robotools.Props.C02
namespace Robotools.C20
open Robotools

/-- What "internally consistent" means for a constructed labware. -/
structure Consistent (L : Labware) : Prop where
  rows_pos : 0 < L.geom.rows
  cols_pos : 0 < L.geom.cols
  rows_le : L.geom.rows ≤ 26                       -- no more rows than row letters
  vrows_ok : ∀ v, L.geom.vrows = some v → L.geom.rows = 1 ∧ 1 ≤ v ∧ v ≤ 26
  size : L.vols.length = L.geom.rows * L.geom.cols  -- volume array = real rows × columns
  limits : 0 ≤ L.minV ∧ L.minV < L.maxV
  range : ∀ v ∈ L.vols, 0 ≤ v ∧ v ≤ L.maxV
  hist : L.hist = [(some "initial", L.vols)]        -- history = exactly the initial state
  comp_len : ∀ p ∈ L.comp, p.2.length = L.vols.length
  comp_keys : (L.comp.map (·.1)).Nodup
  /-- one 100 % component for precisely the initially non-empty wells -/
  onehot : ∀ i, i < L.vols.length →
    (L.vol i = 0 → ∀ k, L.frac i k = 0) ∧
    (L.vol i ≠ 0 → ∃ k, L.frac i k = 1 ∧ ∀ k', k' ≠ k → L.frac i k' = 0)

/-- The ID table describes the same grid: it has `nRowIds * cols` entries (virtual rows only in the
    IDs) and every entry points at a real well. -/
theorem table_grid (g : Geom) :
    g.table.length = g.nRowIds * g.cols
    ∧ ∀ p ∈ g.table, p.2.2 < g.cols ∧ (g.isTrough = true → p.2.1 = 0) ∧ (g.isTrough = false → p.2.1 < g.nRowIds) := by
  sorry

/-- Accepted plate specifications give a consistent labware with the initial volumes laid out as
    given: scalar broadcast, row-major reshape of flat lists / 2-D arrays. -/
theorem mk_ok (s : PlateSpec) (L : Labware) (h : Labware.mk? s = .ok L) : Consistent L := by
  sorry

theorem mk_layout_scalar (s : PlateSpec) (L : Labware) (q : Rat) (h : Labware.mk? s = .ok L)
    (hinit : s.init = some (.scalar (some q))) : ∀ v ∈ L.vols, v = q := by
  sorry

theorem mk_layout_flat (s : PlateSpec) (L : Labware) (l : List InitVal) (h : Labware.mk? s = .ok L)
    (hinit : s.init = some (.vec l)) : L.vols.map some = l := by
  sorry

theorem mk_layout_none (s : PlateSpec) (L : Labware) (h : Labware.mk? s = .ok L)
    (hinit : s.init = none) : ∀ v ∈ L.vols, v = 0 := by
  sorry

/-- Accepted trough specifications: one real row, per-column initial volumes. -/
theorem trough_mk_ok (s : TroughSpec) (L : Labware) (h : Trough.mk? s = .ok L) :
    Consistent L ∧ L.geom.rows = 1 ∧ L.geom.vrows.isSome := by
  sorry

/-- Every rejection is a ValueError. -/
theorem mk_error_is_valueErr (s : PlateSpec) (e : Err) (h : Labware.mk? s = .error e) : e = .valueErr := by
  sorry

theorem trough_mk_error_is_valueErr (s : TroughSpec) (e : Err) (h : Trough.mk? s = .error e) : e = .valueErr := by
  sorry

/-- The unrepresentable specifications of the statement are rejected. -/
def Unrepresentable (s : PlateSpec) : Prop :=
  (∀ n, s.rows ≠ .int n) ∨ (∃ n, s.rows = .int n ∧ (n < 1 ∨ 26 < n))            -- non-integer / non-positive / too many rows
  ∨ (∀ n, s.cols ≠ .int n) ∨ (∃ n, s.cols = .int n ∧ n < 1)
  ∨ s.minV < 0 ∨ s.maxV ≤ s.minV
  ∨ (∃ v, s.vrows = some v ∧ s.rows ≠ .int 1)                                     -- virtual rows on multi-row labware
  ∨ (∃ a, s.init = some a ∧ (∃ x ∈ a.flattenC, x = none ∨ ∃ q, x = some q ∧ (q < 0 ∨ s.maxV < q)))  -- NaN, negative, too large

theorem mk_rejects (s : PlateSpec) (h : Unrepresentable s) : Labware.mk? s = .error .valueErr := by
  sorry

/-- Wrong number of initial volumes. -/
theorem mk_rejects_length (s : PlateSpec) (R C : Nat) (l : List InitVal)
    (hr : s.rows = .int R) (hc : s.cols = .int C) (hinit : s.init = some (.vec l)) (hlen : l.length ≠ R * C) :
    Labware.mk? s = .error .valueErr := by
  sorry

/-- Names for unknown wells or for empty wells. -/
theorem initialComposition_rejects_unknown (name : String) (n : Nat) (wells : List String)
    (names : List (String × Option String)) (init : List Rat) (k : String) (v : Option String)
    (hk : (k, v) ∈ names) (hunk : k ∉ wells) :
    initialComposition name n wells names init = .error .valueErr := by
  sorry

/-- Default component names are distinct for distinct wells of a multi-row plate and distinct
    columns of a multi-column trough. -/
theorem default_names_distinct (name : String) (r₁ c₁ r₂ c₂ : Nat) (h₁ : r₁ < 26) (h₂ : r₂ < 26)
    (h : name ++ "." ++ wellId r₁ c₁ = name ++ "." ++ wellId r₂ c₂) : r₁ = r₂ ∧ c₁ = c₂ := by
  sorry

theorem default_column_names_distinct (name : String) (c₁ c₂ : Nat)
    (h : name ++ ".column_" ++ String.ofList (pad2 (c₁ + 1)) = name ++ ".column_" ++ String.ofList (pad2 (c₂ + 1))) :
    c₁ = c₂ := by
  sorry

example : (Labware.mk? { name := "P", rows := .int 27, cols := .int 2, minV := 0, maxV := 10, init := none, vrows := none, names := [] }).toOption.isNone = true := by
  decide +kernel
example : ((Labware.mk? { name := "P", rows := .int 2, cols := .int 2, minV := 0, maxV := 10, init := some (.scalar (some 5)), vrows := none, names := [] }).toOption.map (·.vols)) = some [5, 5, 5, 5] := by
  decide +kernel

end Robotools.C20
