/-
  C16 — EVO and Fluent worklists differ only in trough well numbers.

  `Dev.eraseRec T` blanks the position fields (position of `A;`/`D;`; source/destination ranges and
  exclusion list of `R;`) of the records whose rack label is in `T`; `Dev.eraseW T` applies it to a
  world's record list and forgets the device.  The theorems say that the two executions are
  *equal* after this erasure with `T` = the names of the troughs — i.e. identical labware
  (volumes, compositions, histories), identical outcome, and records that agree in everything
  except those fields of trough-addressing records.
-/
import Robotools.Proofs.DeviceLemmas
import Robotools.Proofs.ReplayLemmas
namespace Robotools
namespace C16
open Dev RP

/-- Operations available on both devices (the EVOware script commands are EVO-only). -/
def devIndep : Op → Bool
  | .evoAspirate .. | .evoDispense .. | .evoWash _ => false
  | _ => true

/-- Names of the troughs, from the static description of the labware. -/
def troughNames (I : List (String × Geom × Nat)) : List String :=
  (I.filter fun x => x.2.1.isTrough).map (·.1)

/-- All well IDs an operation names exist on the labware it addresses. -/
def wellsOK (I : List (String × Geom × Nat)) : Op → Prop
  | .aspirate l wells _ _ _ => ∀ x, I[l]? = some x → ∀ s ∈ wells.flattenF, (x.2.1.resolve s).isSome
  | .dispense l wells _ _ _ _ => ∀ x, I[l]? = some x → ∀ s ∈ wells.flattenF, (x.2.1.resolve s).isSome
  | .transfer s sw d dw _ _ _ _ _ =>
    (∀ x, I[s]? = some x → ∀ y ∈ sw.flattenF, (x.2.1.resolve y).isSome)
      ∧ (∀ x, I[d]? = some x → ∀ y ∈ dw.flattenF, (x.2.1.resolve y).isSome)
  | .distribute a => ∀ x, I[a.dst]? = some x → ∀ s ∈ a.dstWells.flattenF, (x.2.1.resolve s).isSome
  | _ => True

theorem trough_mem {w : World} {I} (hI : info w = I) {l : Nat} {L : Labware}
    (hL : w.labs[l]? = some L) (ht : L.geom.isTrough = true) :
    (troughNames I).contains L.name = true := by
  have hmem : sinfo L ∈ I := by
    rw [← hI]; exact List.mem_map.2 ⟨L, List.mem_of_getElem? hL, rfl⟩
  simp only [List.contains_iff_mem, troughNames]
  exact List.mem_map.2 ⟨sinfo L, List.mem_filter.2 ⟨hmem, by simpa [sinfo] using ht⟩, rfl⟩

theorem info_get {w : World} {I} (hI : info w = I) {l : Nat} {L : Labware}
    (hL : w.labs[l]? = some L) : I[l]? = some (sinfo L) := by
  rw [← hI]; unfold info; rw [List.getElem?_map, hL]; rfl

/-- The two devices compile every device-independent operation to the same micro-operations up to
    the erased fields. -/
theorem compile_erase (c : Cfg) (labs : List Labware) (rE rF : List Rec) (cyE cyF : Comp) (I)
    (hI : info ⟨cE c, labs, rE, cyE⟩ = I) (op : Op) (hop : devIndep op = true) (hw : wellsOK I op) :
    (compile ⟨cE c, labs, rE, cyE⟩ op).map (eraseM (troughNames I))
      = (compile ⟨cF c, labs, rF, cyF⟩ op).map (eraseM (troughNames I)) := by
  cases op with
  | aspirate l wells vols label kw =>
    simp only [compile]
    cases hL : labs[l]? with
    | none => rfl
    | some L =>
      exact compileAspirate_erase _ c L (trough_mem hI hL) l wells vols label kw
        (hw _ (info_get hI hL))
  | dispense l wells vols label comps kw =>
    simp only [compile]
    cases hL : labs[l]? with
    | none => rfl
    | some L =>
      exact compileDispense_erase _ c L (trough_mem hI hL) l wells vols label comps kw false
        (hw _ (info_get hI hL))
  | transfer s sw d dw vols label wash pb kw =>
    simp only [compile]
    cases hS : labs[s]? with
    | none => rfl
    | some S =>
      cases hD : labs[d]? with
      | none => rfl
      | some D =>
        exact compileTransfer_erase _ c S s (trough_mem hI hS) D d (trough_mem hI hD) sw dw vols
          label wash pb kw (hw.1 _ (info_get hI hS)) (hw.2 _ (info_get hI hD))
  | distribute a =>
    simp only [compile]
    cases hS : labs[a.src]? with
    | none => rfl
    | some S =>
      cases hD : labs[a.dst]? with
      | none => rfl
      | some D =>
        exact compileDistribute_erase _ c S D (trough_mem hI hD) a (hw _ (info_get hI hD))
  | evoAspirate _ _ _ => cases hop
  | evoDispense _ _ _ _ => cases hop
  | evoWash _ => cases hop
  | add _ _ _ _ _ => rfl
  | remove _ _ _ _ => rfl
  | condenseLog _ _ _ => rfl
  | comment _ => rfl
  | wash _ => rfl
  | decontaminate => rfl
  | flush => rfl
  | commit => rfl
  | setDiti _ => rfl
  | aspirateWell _ => rfl
  | dispenseWell _ => rfl
  | reagentDistribution _ => rfl

/-- One operation on two worlds that agree up to the erased fields. -/
theorem step_sim (c : Cfg) (wE wF : World) (I) (hE : wE.cfg = cE c) (hF : wF.cfg = cF c)
    (hI : info wE = I) (heq : eraseW (troughNames I) wE = eraseW (troughNames I) wF) (op : Op)
    (hop : devIndep op = true) (hw : wellsOK I op) :
    eraseW (troughNames I) (wE.step op).1 = eraseW (troughNames I) (wF.step op).1
      ∧ (wE.step op).2 = (wF.step op).2 := by
  have hlabs : wE.labs = wF.labs := by
    have h' := congrArg World.labs heq
    exact h'
  obtain ⟨cfgE, labsE, rE, cyE⟩ := wE
  obtain ⟨cfgF, labsF, rF, cyF⟩ := wF
  simp only at hE hF hlabs
  subst hE hF hlabs
  have h1 := exec_erase (troughNames I) ⟨cE c, labsE, rE, cyE⟩ (compile ⟨cE c, labsE, rE, cyE⟩ op)
  have h2 := exec_erase (troughNames I) ⟨cF c, labsE, rF, cyF⟩ (compile ⟨cF c, labsE, rF, cyF⟩ op)
  rw [compile_erase c labsE rE rF cyE cyF I hI op hop hw, heq] at h1
  rw [h1] at h2
  unfold World.step
  exact ⟨(Prod.mk.inj h2).1, (Prod.mk.inj h2).2⟩

theorem step_cfg (w : World) (op : Op) : (w.step op).1.cfg = w.cfg := by
  unfold World.step
  exact World.exec_invariant (P := fun w' => w'.cfg = w.cfg) (Q := fun _ => True)
    (fun w1 w2 m _ hP hm => by
      rw [← hP]
      cases m <;> simp only [World.micro] at hm <;> repeat' split at hm
      all_goals first
        | (injection hm with hm; subst hm; rfl)
        | (injection hm))
    w _ (fun _ _ => trivial) rfl

/-- **C16 (device simulation).**  The same program of device-independent operations with valid
    well IDs, run from the same labware on an EVO and on a Fluent worklist: after erasing the
    position fields of trough-addressing records the final worlds are equal — identical labware
    (volumes, compositions, histories), identical records otherwise — and the outcome (which
    operation is rejected, with which error class) is the same. -/
theorem device_simulation (c : Cfg) (wE wF : World) (I) (hE : wE.cfg = cE c) (hF : wF.cfg = cF c)
    (hI : info wE = I) (heq : eraseW (troughNames I) wE = eraseW (troughNames I) wF)
    (ops : List Op) (hind : ∀ op ∈ ops, devIndep op = true) (hok : ∀ op ∈ ops, wellsOK I op) :
    eraseW (troughNames I) (wE.run ops).1 = eraseW (troughNames I) (wF.run ops).1
      ∧ (wE.run ops).2 = (wF.run ops).2 := by
  induction ops generalizing wE wF with
  | nil => exact ⟨heq, rfl⟩
  | cons op ops ih =>
    obtain ⟨h1, h2⟩ := step_sim c wE wF I hE hF hI heq op (hind op List.mem_cons_self)
      (hok op List.mem_cons_self)
    unfold World.run
    cases hxE : wE.step op with
    | mk wE' eE =>
      cases hxF : wF.step op with
      | mk wF' eF =>
        rw [hxE, hxF] at h1 h2
        simp only at h1 h2
        subst h2
        cases eE with
        | some e => exact ⟨h1, rfl⟩
        | none =>
          have hcE : wE'.cfg = cE c := by have := step_cfg wE op; rw [hxE] at this; rw [this, hE]
          have hcF : wF'.cfg = cF c := by have := step_cfg wF op; rw [hxF] at this; rw [this, hF]
          have hI' : info wE' = I := by
            have := info_exec wE (compile wE op)
            unfold World.step at hxE
            rw [hxE] at this
            rw [this, hI]
          exact ih wE' wF' hcE hcF hI' h1 (fun o ho => hind o (List.mem_cons_of_mem _ ho))
            (fun o ho => hok o (List.mem_cons_of_mem _ ho))

/-- Reading the conclusion: the labware of the two runs is identical. -/
theorem same_labware {T : List String} {wE wF : World} (h : eraseW T wE = eraseW T wF) :
    wE.labs = wF.labs := by
  have h' := congrArg World.labs h
  exact h'

/-- Reading the conclusion: the record lists agree up to the erased fields. -/
theorem same_records {T : List String} {wE wF : World} (h : eraseW T wE = eraseW T wF) :
    wE.recs.map (eraseRec T) = wF.recs.map (eraseRec T) := by
  have h' := congrArg World.recs h
  exact h'

/-- Erasure leaves records of racks outside `T` untouched (so those records are *identical*). -/
theorem eraseRec_asp_outside (T : List String) (f : ADFields) (h : T.contains f.rackLabel = false) :
    eraseRec T (.asp f) = .asp f ∧ eraseRec T (.disp f) = .disp f := by
  have hn : f.rackLabel ∉ T := by
    intro hm
    rw [List.contains_iff_mem.2 hm] at h
    cases h
  simp [eraseRec, hn]

/-- A worklist of the generic base type refuses a transfer. -/
theorem base_refuses_transfer (w : World) (h : w.cfg.dev = .base) (s : Nat) (sw : Arr String)
    (d : Nat) (dw : Arr String) (vols : Arr Rat) (label : Option String) (wash : WashArg)
    (pb : String) (kw : KW) :
    (w.step (.transfer s sw d dw vols label wash pb kw)).2 ≠ none := by
  unfold World.step
  simp only [compile]
  cases w.labs[s]? with
  | none => simp [World.exec, World.micro]
  | some S =>
    cases w.labs[d]? with
    | none => simp [World.exec, World.micro]
    | some D =>
      simp only
      unfold compileTransfer
      simp [h, World.exec, World.micro]

/-- On a base worklist the per-well emission of `aspirate`/`dispense` never produces a record:
    every well with a positive volume compiles to a failure (`TypeError` in robotools). -/
theorem base_emits_nothing (cfg : Cfg) (h : cfg.dev = .base) (L : Labware) (isAsp : Bool)
    (ws : List String) (vs : List Rat) (kw : KW) :
    ∀ m ∈ emitAD cfg L isAsp ws vs kw, m = Micro.fail .reject := by
  intro m hm
  unfold emitAD at hm
  obtain ⟨p, _, hm⟩ := List.mem_flatMap.1 hm
  simp only at hm
  split at hm
  · simp only [h, Device.pos, exceptMicros, List.mem_singleton] at hm
    exact hm
  · cases hm

/-! ### Non-vacuity: a trough with 4 virtual rows and 2 columns, transfer from column 2 -/

def exTrough : Labware := { name := "T", geom := ⟨1, 2, some 4⟩, minV := 10, maxV := 10000, vols := [5000, 5000], comp := [("water", [1, 1])], hist := [] }
def exPlate : Labware := { name := "P", geom := ⟨2, 3, none⟩, minV := 0, maxV := 300, vols := [0, 0, 0, 0, 0, 0], comp := [], hist := [] }
def exCfg : Cfg := ⟨.base, 100, true, false⟩
def exE : World := ⟨cE exCfg, [exTrough, exPlate], [], []⟩
def exF : World := ⟨cF exCfg, [exTrough, exPlate], [], []⟩
def exOps : List Op :=
  [.transfer 0 (.vec ["A02", "B02"]) 1 (.vec ["A01", "B03"]) (.vec [250, 30]) (some "x") (.scheme 1) "auto" {}]

example : eraseW (troughNames (info exE)) exE = eraseW (troughNames (info exE)) exF := rfl
example : troughNames (info exE) = ["T"] := by decide +kernel
example : ∀ op ∈ exOps, wellsOK (info exE) op := by
  intro op hop
  simp only [exOps, List.mem_singleton] at hop
  subst hop
  refine ⟨?_, ?_⟩
  · intro x hx; have : x = sinfo exTrough := by simpa [info, exE] using hx.symm
    subst this; decide +kernel
  · intro x hx; have : x = sinfo exPlate := by simpa [info, exE] using hx.symm
    subst this; decide +kernel
def aspPositions (rs : List Rec) : List Nat :=
  rs.filterMap fun r => match r with | .asp f => some f.position | _ => none

/-- The two record lists really differ (EVO numbers the wells of trough column 2 as 5 and 6, the
    Fluent numbers the column 2), while the run succeeds on both. -/
example : aspPositions (exE.run exOps).1.recs = [5, 5, 5, 6]
    ∧ aspPositions (exF.run exOps).1.recs = [2, 2, 2, 2] ∧ (exE.run exOps).2 = none := by
  decide +kernel

end C16
end Robotools
