/-
  C08 — well numbering is column-major, 1-based, and device-specific for troughs.
-/
import Robotools.Model.Geometry
import Robotools.Proofs.GeometryLemmas
namespace Robotools.C08
open Robotools

/-- A plate geometry with at most 26 rows. -/
def plate (R C : Nat) : Geom := { rows := R, cols := C, vrows := none }
/-- A trough geometry with `V` virtual rows. -/
def trough (V C : Nat) : Geom := { rows := 1, cols := C, vrows := some V }

private theorem plate_nRowIds (R C : Nat) (hR : R ≤ 26) : (plate R C).nRowIds = R := by
  simp only [plate, Geom.nRowIds]; omega
private theorem plate_stride (R C : Nat) (hR : R ≤ 26) : (plate R C).stride = R := by
  simp only [Geom.stride]; exact plate_nRowIds R C hR
private theorem trough_nRowIds (V C : Nat) (hV : V ≤ 26) : (trough V C).nRowIds = V := by
  simp only [trough, Geom.nRowIds]; omega
private theorem trough_stride (V C : Nat) : (trough V C).stride = V := rfl
private theorem plate_isTrough (R C : Nat) : (plate R C).isTrough = false := rfl
private theorem trough_isTrough (V C : Nat) : (trough V C).isTrough = true := rfl

/-- Well IDs are injective on (row < 26, any column). -/
theorem wellId_inj (r₁ c₁ r₂ c₂ : Nat) (h₁ : r₁ < 26) (h₂ : r₂ < 26)
    (h : wellId r₁ c₁ = wellId r₂ c₂) : r₁ = r₂ ∧ c₁ = c₂ :=
  wellId_injective h₁ h₂ h

/-- The loose parser reads a well ID back: row letter and 1-based column. -/
theorem parseLoose_wellId (r c : Nat) (h : r < 26) :
    parseLoose (wellId r c) = some ([rowLetters.getD r '?'], c + 1) :=
  parseLoose_wellId' r c h

/-- Plate wells: position 1 + column_index * rows + row_index on both devices. -/
theorem evoPos_plate (R C r c : Nat) (hR : R ≤ 26) (hr : r < R) (hc : c < C) :
    (plate R C).evoPos (wellId r c) = some (1 + c * R + r) := by
  have := (plate R C).evoPos_wellId (r := r) (c := c) (by rw [plate_nRowIds R C hR]; exact hr) hc
  rw [plate_stride R C hR] at this; exact this

theorem fluentPos_plate (R C r c : Nat) (hR : R ≤ 26) (hr : r < R) (hc : c < C) :
    (plate R C).fluentPos (wellId r c) = some (1 + c * R + r) := by
  have := (plate R C).fluentPos_wellId (r := r) (c := c) (by rw [plate_nRowIds R C hR]; exact hr) hc
  rw [plate_isTrough, plate_nRowIds R C hR] at this; exact this

/-- Troughs: the EVO counts the virtual rows, the Fluent numbers 1 + column whatever virtual row. -/
theorem evoPos_trough (V C vr c : Nat) (hV : V ≤ 26) (hr : vr < V) (hc : c < C) :
    (trough V C).evoPos (wellId vr c) = some (1 + c * V + vr) := by
  have := (trough V C).evoPos_wellId (r := vr) (c := c) (by rw [trough_nRowIds V C hV]; exact hr) hc
  rw [trough_stride] at this; exact this

theorem fluentPos_trough (V C vr c : Nat) (hV : V ≤ 26) (hr : vr < V) (hc : c < C) :
    (trough V C).fluentPos (wellId vr c) = some (1 + c) := by
  have := (trough V C).fluentPos_wellId (r := vr) (c := c) (by rw [trough_nRowIds V C hV]; exact hr) hc
  rw [trough_isTrough] at this; exact this

/-- The index table resolves every ID of the labware to its (real row, column), and only those. -/
theorem resolve_plate (R C r c : Nat) (hR : R ≤ 26) (hr : r < R) (hc : c < C) :
    (plate R C).resolve (wellId r c) = some (r, c) := by
  have := (plate R C).resolve_wellId (r := r) (c := c) (by rw [plate_nRowIds R C hR]; exact hr) hc
  rw [plate_isTrough] at this; exact this

theorem resolve_trough (V C vr c : Nat) (hV : V ≤ 26) (hr : vr < V) (hc : c < C) :
    (trough V C).resolve (wellId vr c) = some (0, c) := by
  have := (trough V C).resolve_wellId (r := vr) (c := c) (by rw [trough_nRowIds V C hV]; exact hr) hc
  rw [trough_isTrough] at this; exact this

theorem resolve_some (g : Geom) (s : String) (rc : Nat × Nat) (h : g.resolve s = some rc) :
    ∃ r c, r < g.nRowIds ∧ c < g.cols ∧ s = wellId r c ∧ rc = (if g.isTrough then 0 else r, c) := by
  obtain ⟨r, c, hr, hc, heq⟩ := (g.mem_table _).1 (mem_of_lookup_eq_some h)
  exact ⟨r, c, hr, hc, (Prod.mk.inj heq).1, (Prod.mk.inj heq).2⟩

/-- The inverse numbering used by the independent replay inverts the device numbering
    (onto real wells for troughs). -/
/- NOTE (statement change): the original statement had no `R ≤ 26` hypothesis and is false
   for plates with more than 26 rows, because `stride = nRowIds = min 26 R`; see the
   counterexample `evoWellOf_evoPos_plate_needs_le26` below.  `hR26 : R ≤ 26` was added. -/
theorem evoWellOf_evoPos_plate (R C r c : Nat) (hR : 0 < R) (hR26 : R ≤ 26) (hr : r < R) (hc : c < C) :
    (plate R C).evoWellOf (1 + c * R + r) = some (r, c) := by
  have e1 : (1 + c * R + r - 1) % R = r := by
    rw [show 1 + c * R + r - 1 = r + c * R by omega, Nat.add_mul_mod_self_right, Nat.mod_eq_of_lt hr]
  have e2 : (1 + c * R + r - 1) / R = c := by
    rw [show 1 + c * R + r - 1 = r + c * R by omega, Nat.add_mul_div_right _ _ hR,
      Nat.div_eq_of_lt hr, Nat.zero_add]
  have hc' : c < (plate R C).cols := hc
  unfold Geom.evoWellOf
  rw [plate_stride R C hR26, plate_isTrough, if_neg (by omega)]
  simp only [e1, e2, hc', if_true]
  rfl

theorem evoWellOf_evoPos_trough (V C vr c : Nat) (hV : V ≤ 26) (hr : vr < V) (hc : c < C) :
    (trough V C).evoWellOf (1 + c * V + vr) = some (0, c) := by
  have hV0 : 0 < V := by omega
  have e2 : (1 + c * V + vr - 1) / V = c := by
    rw [show 1 + c * V + vr - 1 = vr + c * V by omega, Nat.add_mul_div_right _ _ hV0,
      Nat.div_eq_of_lt hr, Nat.zero_add]
  have hc' : c < (trough V C).cols := hc
  unfold Geom.evoWellOf
  rw [trough_stride, trough_isTrough, if_neg (by omega)]
  simp only [e2, hc', if_true]

theorem fluentWellOf_fluentPos_trough (V C c : Nat) (hc : c < C) :
    (trough V C).fluentWellOf (1 + c) = some (0, c) := by
  have hc' : c < (trough V C).cols := hc
  unfold Geom.fluentWellOf
  rw [trough_isTrough, if_pos rfl, if_pos ⟨by omega, by omega⟩]
  simp

/-- Counterexample to `evoWellOf_evoPos_plate` without `R ≤ 26`: R = 30, C = 1, r = 27, c = 0. -/
theorem evoWellOf_evoPos_plate_needs_le26 :
    0 < 30 ∧ 27 < 30 ∧ 0 < 1 ∧ (plate 30 1).evoWellOf (1 + 0 * 30 + 27) = none := by decide

/-- Column-major numbering is a bijection between [0,R)×[0,C) and [1, R*C]. -/
theorem pos_range (R C r c : Nat) (hr : r < R) (hc : c < C) : 1 ≤ 1 + c * R + r ∧ 1 + c * R + r ≤ R * C := by
  refine ⟨by omega, ?_⟩
  have h : R * (c + 1) ≤ R * C := Nat.mul_le_mul_left R hc
  rw [Nat.mul_add, Nat.mul_one, Nat.mul_comm R c] at h
  omega

theorem pos_inj (R r₁ c₁ r₂ c₂ : Nat) (h₁ : r₁ < R) (h₂ : r₂ < R)
    (h : 1 + c₁ * R + r₁ = 1 + c₂ * R + r₂) : r₁ = r₂ ∧ c₁ = c₂ := by
  have hR : 0 < R := by omega
  have h' : r₁ + c₁ * R = r₂ + c₂ * R := by omega
  have hm := congrArg (· % R) h'
  have hd := congrArg (· / R) h'
  simp only [Nat.add_mul_mod_self_right, Nat.mod_eq_of_lt h₁, Nat.mod_eq_of_lt h₂,
    Nat.add_mul_div_right _ _ hR, Nat.div_eq_of_lt h₁, Nat.div_eq_of_lt h₂, Nat.zero_add] at hm hd
  exact ⟨hm, hd⟩

theorem pos_surj (R C p : Nat) (hR : 0 < R) (h1 : 1 ≤ p) (h2 : p ≤ R * C) :
    ∃ r c, r < R ∧ c < C ∧ p = 1 + c * R + r := by
  refine ⟨(p - 1) % R, (p - 1) / R, Nat.mod_lt _ hR, ?_, ?_⟩
  · rw [Nat.div_lt_iff_lt_mul hR, Nat.mul_comm]; omega
  · have := Nat.div_add_mod (p - 1) R
    rw [Nat.mul_comm] at this
    omega

/-- The deprecated `positions` attribute agrees with the EVO numbering. -/
theorem positions_eq_evoPos (g : Geom) (hv : g.nRowIds = (match g.vrows with | some v => v | none => g.rows))
    (s : String) (p : Nat) (h : (s, p) ∈ g.positions) : g.evoPos s = some p := by
  simp only [Geom.positions, List.mem_flatMap, List.mem_map, List.mem_range] at h
  obtain ⟨r, hr, c, hc, heq⟩ := h
  obtain ⟨rfl, rfl⟩ := Prod.mk.inj heq
  rw [g.evoPos_wellId hr hc]
  have hs : g.stride = (match g.vrows with | some v => v | none => g.rows) := by
    unfold Geom.stride
    cases hvr : g.vrows with
    | some v => rfl
    | none => rw [hvr] at hv; exact hv
  rw [hs]
  rfl

/-- The well-array helpers agree with the labware tables. -/
theorem makeWellArray_eq_wells (R C : Nat) : makeWellArray R C = (plate R C).wells := by
  rfl

theorem makeWellIndexDict_eq_table (R C : Nat) : makeWellIndexDict R C = (plate R C).table := by
  simp only [makeWellIndexDict, Geom.table, plate_isTrough]
  rfl

/-- An ID that does not exist in the labware has no position on either device when it is not
    even loosely of the form letter+digits within range. -/
theorem unknown_id_no_index (g : Geom) (s : String) (h : ∀ r c, r < g.nRowIds → c < g.cols → s ≠ wellId r c) :
    g.resolve s = none := by
  unfold Geom.resolve
  rw [List.lookup_eq_none_iff]
  intro p hp
  obtain ⟨r, c, hr, hc, rfl⟩ := (g.mem_table p).1 hp
  simpa using h r c hr hc

example : (plate 8 12).evoPos "C02" = some 11 := by decide +kernel
example : (trough 4 2).evoPos "B02" = some 6 ∧ (trough 4 2).fluentPos "B02" = some 2 := by decide +kernel

end Robotools.C08
