/-
  C08 — well numbering is column-major, 1-based, and device-specific for troughs.
-/
import Robotools.Model.Geometry
namespace Robotools.C08
open Robotools

/-- A plate geometry with at most 26 rows. -/
def plate (R C : Nat) : Geom := { rows := R, cols := C, vrows := none }
/-- A trough geometry with `V` virtual rows. -/
def trough (V C : Nat) : Geom := { rows := 1, cols := C, vrows := some V }

/-- Well IDs are injective on (row < 26, any column). -/
theorem wellId_inj (r₁ c₁ r₂ c₂ : Nat) (h₁ : r₁ < 26) (h₂ : r₂ < 26)
    (h : wellId r₁ c₁ = wellId r₂ c₂) : r₁ = r₂ ∧ c₁ = c₂ := by
  sorry

/-- The loose parser reads a well ID back: row letter and 1-based column. -/
theorem parseLoose_wellId (r c : Nat) (h : r < 26) :
    parseLoose (wellId r c) = some ([rowLetters.getD r '?'], c + 1) := by
  sorry

/-- Plate wells: position 1 + column_index * rows + row_index on both devices. -/
theorem evoPos_plate (R C r c : Nat) (hR : R ≤ 26) (hr : r < R) (hc : c < C) :
    (plate R C).evoPos (wellId r c) = some (1 + c * R + r) := by
  sorry

theorem fluentPos_plate (R C r c : Nat) (hR : R ≤ 26) (hr : r < R) (hc : c < C) :
    (plate R C).fluentPos (wellId r c) = some (1 + c * R + r) := by
  sorry

/-- Troughs: the EVO counts the virtual rows, the Fluent numbers 1 + column whatever virtual row. -/
theorem evoPos_trough (V C vr c : Nat) (hV : V ≤ 26) (hr : vr < V) (hc : c < C) :
    (trough V C).evoPos (wellId vr c) = some (1 + c * V + vr) := by
  sorry

theorem fluentPos_trough (V C vr c : Nat) (hV : V ≤ 26) (hr : vr < V) (hc : c < C) :
    (trough V C).fluentPos (wellId vr c) = some (1 + c) := by
  sorry

/-- The index table resolves every ID of the labware to its (real row, column), and only those. -/
theorem resolve_plate (R C r c : Nat) (hR : R ≤ 26) (hr : r < R) (hc : c < C) :
    (plate R C).resolve (wellId r c) = some (r, c) := by
  sorry

theorem resolve_trough (V C vr c : Nat) (hV : V ≤ 26) (hr : vr < V) (hc : c < C) :
    (trough V C).resolve (wellId vr c) = some (0, c) := by
  sorry

theorem resolve_some (g : Geom) (s : String) (rc : Nat × Nat) (h : g.resolve s = some rc) :
    ∃ r c, r < g.nRowIds ∧ c < g.cols ∧ s = wellId r c ∧ rc = (if g.isTrough then 0 else r, c) := by
  sorry

/-- The inverse numbering used by the independent replay inverts the device numbering
    (onto real wells for troughs). -/
theorem evoWellOf_evoPos_plate (R C r c : Nat) (hR : 0 < R) (hr : r < R) (hc : c < C) :
    (plate R C).evoWellOf (1 + c * R + r) = some (r, c) := by
  sorry

theorem evoWellOf_evoPos_trough (V C vr c : Nat) (hV : V ≤ 26) (hr : vr < V) (hc : c < C) :
    (trough V C).evoWellOf (1 + c * V + vr) = some (0, c) := by
  sorry

theorem fluentWellOf_fluentPos_trough (V C c : Nat) (hc : c < C) :
    (trough V C).fluentWellOf (1 + c) = some (0, c) := by
  sorry

/-- Column-major numbering is a bijection between [0,R)×[0,C) and [1, R*C]. -/
theorem pos_range (R C r c : Nat) (hr : r < R) (hc : c < C) : 1 ≤ 1 + c * R + r ∧ 1 + c * R + r ≤ R * C := by
  sorry

theorem pos_inj (R r₁ c₁ r₂ c₂ : Nat) (h₁ : r₁ < R) (h₂ : r₂ < R)
    (h : 1 + c₁ * R + r₁ = 1 + c₂ * R + r₂) : r₁ = r₂ ∧ c₁ = c₂ := by
  sorry

theorem pos_surj (R C p : Nat) (hR : 0 < R) (h1 : 1 ≤ p) (h2 : p ≤ R * C) :
    ∃ r c, r < R ∧ c < C ∧ p = 1 + c * R + r := by
  sorry

/-- The deprecated `positions` attribute agrees with the EVO numbering. -/
theorem positions_eq_evoPos (g : Geom) (hv : g.nRowIds = (match g.vrows with | some v => v | none => g.rows))
    (s : String) (p : Nat) (h : (s, p) ∈ g.positions) : g.evoPos s = some p := by
  sorry

/-- The well-array helpers agree with the labware tables. -/
theorem makeWellArray_eq_wells (R C : Nat) : makeWellArray R C = (plate R C).wells := by
  sorry

theorem makeWellIndexDict_eq_table (R C : Nat) : makeWellIndexDict R C = (plate R C).table := by
  sorry

/-- An ID that does not exist in the labware has no position on either device when it is not
    even loosely of the form letter+digits within range. -/
theorem unknown_id_no_index (g : Geom) (s : String) (h : ∀ r c, r < g.nRowIds → c < g.cols → s ≠ wellId r c) :
    g.resolve s = none := by
  sorry

example : (plate 8 12).evoPos "C02" = some 11 := by decide +kernel
example : (trough 4 2).evoPos "B02" = some 6 ∧ (trough 4 2).fluentPos "B02" = some 2 := by decide +kernel

end Robotools.C08
