/-
  C06 — large-volume splitting is complete, bounded and minimal.
  Theorems about `partitionVolume` (the model of `partition_volume`) and about the transfer plan built
  from it.  `partition_volume` is tied to /repo twice: its source is re-translated statement by statement
  on every run (`Generated.partition_volume`, harness/translate_fns.py) and proved equal to the model
  (`GenFns.gen_partition_volume_ok`), so `source_partition_spec` is the specification of the function
  *as the source reads now* (exact-arithmetic reading); and the correspondence stream compares the running
  binary64 code with the model on a dense grid.
-/
import Robotools.Model.Plan
import Robotools.Proofs.GenFns
import Mathlib.Data.Rat.Floor
import Mathlib.Tactic.Linarith
import Mathlib.Tactic.FieldSimp
import Mathlib.Tactic.Ring
import Mathlib.Tactic.Positivity
namespace Robotools.C06
open Robotools

/-- Nothing is emitted for a zero volume. -/
theorem partition_zero (M : Rat) : partitionVolume 0 M = [] := by
  simp [partitionVolume]

private theorem ceil_pos_of_ge_one {x : Rat} (h : 1 ≤ x) : 1 ≤ x.ceil := by
  have := @Rat.le_ceil x
  have h1 : (1 : Rat) ≤ (x.ceil : Rat) := le_trans h this
  exact_mod_cast h1

/-- The specification of the property, for every `v > 0` and every `max_volume > 0`:
    the steps add up to `v`, each lies in `(0, max_volume]`, and there are exactly
    `max 1 ⌈v / max_volume⌉` of them. -/
theorem partition_spec (v M : Rat) (hM : 0 < M) (hv : 0 < v) :
    (partitionVolume v M).sum = v
    ∧ (∀ s ∈ partitionVolume v M, 0 < s ∧ s ≤ M)
    ∧ (partitionVolume v M).length = max 1 (v / M).ceil.toNat := by
  unfold partitionVolume
  have hv0 : v ≠ 0 := ne_of_gt hv
  rw [if_neg hv0]
  by_cases hlt : v < M
  · rw [if_pos hlt]
    refine ⟨by simp, ?_, ?_⟩
    · intro s hs
      simp at hs
      subst hs
      exact ⟨hv, le_of_lt hlt⟩
    · have hq : v / M ≤ 1 := by
        rw [div_le_one hM]; exact le_of_lt hlt
      have : (v / M).ceil ≤ 1 := Rat.ceil_le_iff.mpr (by exact_mod_cast hq)
      have : (v / M).ceil.toNat ≤ 1 := by omega
      simp; omega
  · rw [if_neg hlt]
    have hge : M ≤ v := not_lt.mp hlt
    have hq1 : (1 : Rat) ≤ v / M := by rw [le_div_iff₀ hM]; linarith
    have hc1 : 1 ≤ (v / M).ceil := ceil_pos_of_ge_one hq1
    set c : Int := (v / M).ceil with hc
    set n : Nat := c.toNat with hn
    have hnc : (n : Int) = c := by omega
    have hn1 : 1 ≤ n := by omega
    have hnR : ((n : Nat) : Rat) = (c : Rat) := by exact_mod_cast hnc
    have hle : v / M ≤ (c : Rat) := Rat.le_ceil
    have hlt' : (c : Rat) < v / M + 1 := Rat.ceil_lt
    have hnpos : (0 : Rat) < (n : Rat) := by exact_mod_cast hn1
    -- v ≤ n * M  and  (n - 1) * M < v
    have hvle : v ≤ (n : Rat) * M := by
      have := (div_le_iff₀ hM).mp hle
      rw [hnR]; linarith
    have hvgt : ((n : Rat) - 1) * M < v := by
      have h1 : (c : Rat) - 1 < v / M := by linarith
      have := (lt_div_iff₀ hM).mp h1
      rw [hnR]; linarith
    have hcast : (((n - 1 : Nat) : Nat) : Rat) = (n : Rat) - 1 := by
      rw [Nat.cast_sub hn1]; simp
    -- the chosen step
    set s0 : Rat := (((v / (n : Rat)).ceil : Int) : Rat) with hs0
    have hs0ge : v / (n : Rat) ≤ s0 := Rat.le_ceil
    have hvn_pos : 0 < v / (n : Rat) := div_pos hv hnpos
    have hvn_le : v / (n : Rat) ≤ M := by
      rw [div_le_iff₀ hnpos]; linarith
    set s : Rat := if M < s0 then v / (n : Rat) else s0 with hs
    have hs_pos : 0 < s := by
      rw [hs]; split
      · exact hvn_pos
      · linarith
    have hs_le : s ≤ M := by
      rw [hs]; split
      · exact hvn_le
      · linarith
    have hs_ge : v / (n : Rat) ≤ s := by
      rw [hs]; split
      · exact le_refl _
      · exact hs0ge
    have hlast_pos : 0 < v - ((n : Rat) - 1) * s := by
      have : ((n : Rat) - 1) * s ≤ ((n : Rat) - 1) * M := by
        apply mul_le_mul_of_nonneg_left hs_le
        have : (1 : Rat) ≤ (n : Rat) := by exact_mod_cast hn1
        linarith
      linarith
    have hlast_le : v - ((n : Rat) - 1) * s ≤ M := by
      have h1 : ((n : Rat) - 1) * (v / (n : Rat)) ≤ ((n : Rat) - 1) * s := by
        apply mul_le_mul_of_nonneg_left hs_ge
        have : (1 : Rat) ≤ (n : Rat) := by exact_mod_cast hn1
        linarith
      have h2 : v - ((n : Rat) - 1) * (v / (n : Rat)) = v / (n : Rat) := by
        field_simp; ring
      linarith
    refine ⟨?_, ?_, ?_⟩
    · rw [List.sum_append, List.sum_replicate, List.sum_singleton, nsmul_eq_mul, hcast]
      ring
    · intro x hx
      rw [List.mem_append] at hx
      rcases hx with hx | hx
      · have := List.eq_of_mem_replicate hx
        rw [this]; exact ⟨hs_pos, hs_le⟩
      · rw [List.mem_singleton.mp hx, hcast]; exact ⟨hlast_pos, hlast_le⟩
    · simp; omega

/-- A reagent distribution never plans more multi-dispenses per aspiration than fit into
    `max_volume`, and `multi_disp` is reduced only when needed. -/
theorem multi_disp_fits (M v : Rat) (md : Int) (hv : 0 < v) :
    ((adaptMultiDisp M v md : Int) : Rat) * v ≤ M := by
  unfold adaptMultiDisp
  split
  · have h := @Rat.floor_le (M / v)
    have := mul_le_mul_of_nonneg_right h (le_of_lt hv)
    rwa [div_mul_cancel₀ M (ne_of_gt hv)] at this
  · linarith

theorem multi_disp_unchanged (M v : Rat) (md : Int) (h : (md : Rat) * v ≤ M) :
    adaptMultiDisp M v md = md := by
  unfold adaptMultiDisp
  rw [if_neg (not_lt.mpr h)]

/-- Non-vacuity and a concrete instance with a non-integer `max_volume`
    (the input on which the pinned tree failed, see known_findings.json F1). -/
example : partitionVolume 1 (3/5) = [1/2, 1/2] := by decide +kernel
example : partitionVolume 2000 950 = [667, 667, 666] := by decide +kernel
example : (0 : Rat) < 3/5 ∧ (0 : Rat) < 1 := by decide +kernel

/-- The specification, stated about `partition_volume` as it is written in /repo **now** (its source
    translated statement by statement, exact-arithmetic reading of the numbers). -/
theorem source_partition_spec (v M : Rat) (hM : 0 < M) (hv : 0 < v) :
    (Generated.partition_volume v M).sum = v
    ∧ (∀ s ∈ Generated.partition_volume v M, 0 < s ∧ s ≤ M)
    ∧ (Generated.partition_volume v M).length = max 1 (v / M).ceil.toNat := by
  rw [GenFns.gen_partition_volume_ok v M hM (le_of_lt hv)]
  exact partition_spec v M hM hv

end Robotools.C06
