/-
  C02 — volume limits are enforced on every tracked operation.

  In the model every public operation is `World.step w op = w.exec (compile w op)`: a list of
  micro-operations executed with early exit, where volumes change only through
  `Labware.addStep` / `Labware.removeStep`.  That every robotools call site behaves like its
  compiled micro-operations is what the correspondence check ties to /repo.
-/
import Robotools.Model.World
namespace Robotools.C02
open Robotools

/-- The limits invariant of one labware: `0 ≤ min < max` and every well within `[0, max]`. -/
structure LabValid (L : Labware) : Prop where
  min_nonneg : 0 ≤ L.minV
  min_lt_max : L.minV < L.maxV
  range : ∀ v ∈ L.vols, 0 ≤ v ∧ v ≤ L.maxV

def WorldValid (w : World) : Prop := ∀ L ∈ w.labs, LabValid L

/-- Volume arguments of the micro-operations of a compiled operation are never negative. -/
def Micro.NonNeg : Micro → Prop
  | .rm _ _ v => 0 ≤ v
  | .ad _ _ v _ => 0 ≤ v
  | _ => True

/-! ### Single steps -/

/-- An addition is accepted iff it does not exceed `max_volume`; then the well holds the sum. -/
theorem addStep_ok_iff (L : Labware) (i : Nat) (v : Rat) (c : Option Comp) :
    (∃ L', L.addStep i v c = .ok L') ↔ L.vol i + v ≤ L.maxV := by
  sorry

theorem addStep_vol (L L' : Labware) (i : Nat) (v : Rat) (c : Option Comp) (hi : i < L.vols.length)
    (h : L.addStep i v c = .ok L') :
    L'.vol i = L.vol i + v ∧ L'.vol i ≤ L.maxV ∧ (∀ j, j ≠ i → L'.vol j = L.vol j)
    ∧ L'.minV = L.minV ∧ L'.maxV = L.maxV ∧ L'.vols.length = L.vols.length := by
  sorry

/-- A refused addition raises the overflow error (and, being an `Except`, changes nothing). -/
theorem addStep_err (L : Labware) (i : Nat) (v : Rat) (c : Option Comp) (e : Err)
    (h : L.addStep i v c = .error e) : e = .overflow ∧ L.maxV < L.vol i + v := by
  sorry

/-- A removal is accepted iff it does not undercut `min_volume`. -/
theorem removeStep_ok_iff (L : Labware) (i : Nat) (v : Rat) :
    (∃ L', L.removeStep i v = .ok L') ↔ L.minV ≤ L.vol i - v := by
  sorry

theorem removeStep_vol (L L' : Labware) (i : Nat) (v : Rat) (hi : i < L.vols.length)
    (h : L.removeStep i v = .ok L') :
    L'.vol i = L.vol i - v ∧ L.minV ≤ L'.vol i ∧ (∀ j, j ≠ i → L'.vol j = L.vol j)
    ∧ L'.minV = L.minV ∧ L'.maxV = L.maxV ∧ L'.vols.length = L.vols.length := by
  sorry

theorem removeStep_err (L : Labware) (i : Nat) (v : Rat) (e : Err)
    (h : L.removeStep i v = .error e) : e = .underflow ∧ L.vol i - v < L.minV := by
  sorry

/-- Steps preserve the limits invariant (for non-negative volumes). -/
theorem addStep_valid (L L' : Labware) (i : Nat) (v : Rat) (c : Option Comp) (hv : 0 ≤ v)
    (hL : LabValid L) (h : L.addStep i v c = .ok L') : LabValid L' := by
  sorry

theorem removeStep_valid (L L' : Labware) (i : Nat) (v : Rat) (hv : 0 ≤ v)
    (hL : LabValid L) (h : L.removeStep i v = .ok L') : LabValid L' := by
  sorry

/-! ### Micro-operations and their execution -/

theorem micro_valid (w w' : World) (m : Micro) (hm : Micro.NonNeg m) (hw : WorldValid w)
    (h : w.micro m = .ok w') : WorldValid w' := by
  sorry

/-- Execution with early exit: the returned state is the one reached by the executed prefix;
    on an error it is the state in which the failing micro-operation was refused. -/
theorem exec_decompose (w : World) (ms : List Micro) :
    (∃ w', w.exec ms = (w', none) )
    ∨ (∃ pre m post w' e, ms = pre ++ m :: post ∧ w.exec pre = (w', none) ∧ w'.micro m = .error e
        ∧ w.exec ms = (w', some e)) := by
  sorry

theorem exec_append (w : World) (a b : List Micro) :
    w.exec (a ++ b) = match w.exec a with
      | (w', none) => w'.exec b
      | (w', some e) => (w', some e) := by
  sorry

theorem exec_valid (w : World) (ms : List Micro) (hms : ∀ m ∈ ms, Micro.NonNeg m) (hw : WorldValid w) :
    WorldValid (w.exec ms).1 := by
  sorry

/-- Every compiled operation only uses non-negative step volumes. -/
theorem compile_nonneg (w : World) (op : Op) : ∀ m ∈ compile w op, Micro.NonNeg m := by
  sorry

/-! ### The property -/

/-- After every operation — accepted or rejected, whatever it is — all wells of all labware are
    within `[0, max_volume]`. -/
theorem step_limits (w : World) (op : Op) (hw : WorldValid w) : WorldValid (w.step op).1 := by
  sorry

/-- Running any sequence of operations, continuing after rejected ones. -/
def runAll (w : World) : List Op → World
  | [] => w
  | op :: ops => runAll (w.step op).1 ops

/-- The invariant holds in every reachable state of every history (including rejected operations). -/
theorem world_limits (w : World) (ops : List Op) (hw : WorldValid w) : WorldValid (runAll w ops) := by
  sorry

/-- Constructed labware satisfies the invariant, so every reachable state of a program does. -/
theorem mk_valid (s : PlateSpec) (L : Labware) (h : Labware.mk? s = .ok L) : LabValid L := by
  sorry

theorem trough_mk_valid (s : TroughSpec) (L : Labware) (h : Trough.mk? s = .ok L) : LabValid L := by
  sorry

/-- Non-vacuity: a concrete valid world and an operation that is rejected at the limit. -/
example : (Labware.addStep { name := "P", geom := ⟨1, 1, none⟩, minV := 0, maxV := 10, vols := [4], comp := [], hist := [] }
    0 (13/2) none).toOption.isNone = true := by decide +kernel

end Robotools.C02
