/-
  C02 — volume limits are enforced on every tracked operation.

  In the model every public operation is `World.step w op = w.exec (compile w op)`: a list of
  micro-operations executed with early exit, where volumes change only through
  `Labware.addStep` / `Labware.removeStep`.  That every robotools call site behaves like its
  compiled micro-operations is what the correspondence check ties to /repo.
-/
import Robotools.Model.World
import Robotools.Proofs.ExecLemmas
namespace Robotools.C02
open Robotools

/-- The limits invariant of one labware: `0 ≤ min < max` and every well within `[0, max]`. -/
structure LabValid (L : Labware) : Prop where
  min_nonneg : 0 ≤ L.minV
  min_lt_max : L.minV < L.maxV
  range : ∀ v ∈ L.vols, 0 ≤ v ∧ v ≤ L.maxV

def WorldValid (w : World) : Prop := ∀ L ∈ w.labs, LabValid L

/-- Volume arguments of the micro-operations of a compiled operation are never negative. -/
def Micro.NonNeg : Micro → Prop
  | .rm _ _ v => 0 ≤ v
  | .ad _ _ v _ => 0 ≤ v
  | _ => True

/-! ### Single steps -/

/-- An addition is accepted iff it does not exceed `max_volume`; then the well holds the sum. -/
theorem addStep_ok_iff (L : Labware) (i : Nat) (v : Rat) (c : Option Comp) :
    (∃ L', L.addStep i v c = .ok L') ↔ L.vol i + v ≤ L.maxV := by
  constructor
  · rintro ⟨L', h⟩
    exact Rat.not_lt.mp (Labware.addStep_fields h).1
  · intro h
    exact Labware.addStep_isOk (Rat.not_lt.mpr h)

theorem addStep_vol (L L' : Labware) (i : Nat) (v : Rat) (c : Option Comp) (hi : i < L.vols.length)
    (h : L.addStep i v c = .ok L') :
    L'.vol i = L.vol i + v ∧ L'.vol i ≤ L.maxV ∧ (∀ j, j ≠ i → L'.vol j = L.vol j)
    ∧ L'.minV = L.minV ∧ L'.maxV = L.maxV ∧ L'.vols.length = L.vols.length := by
  obtain ⟨hle, hvols, hmin, hmax, -⟩ := Labware.addStep_fields h
  have hi' : L'.vol i = L.vol i + v := by
    simp only [Labware.vol, hvols]
    exact getD_set_self _ _ _ _ hi
  refine ⟨hi', ?_, ?_, hmin, hmax, ?_⟩
  · rw [hi']; exact Rat.not_lt.mp hle
  · intro j hj
    simp only [Labware.vol, hvols]
    exact getD_set_ne _ _ _ _ _ hj
  · rw [hvols, List.length_set]

/-- A refused addition raises the overflow error (and, being an `Except`, changes nothing). -/
theorem addStep_err (L : Labware) (i : Nat) (v : Rat) (c : Option Comp) (e : Err)
    (h : L.addStep i v c = .error e) : e = .overflow ∧ L.maxV < L.vol i + v :=
  Labware.addStep_error h

/-- A removal is accepted iff it does not undercut `min_volume`. -/
theorem removeStep_ok_iff (L : Labware) (i : Nat) (v : Rat) :
    (∃ L', L.removeStep i v = .ok L') ↔ L.minV ≤ L.vol i - v := by
  constructor
  · rintro ⟨L', h⟩
    exact Rat.not_lt.mp (Labware.removeStep_fields h).1
  · intro h
    exact Labware.removeStep_isOk (Rat.not_lt.mpr h)

theorem removeStep_vol (L L' : Labware) (i : Nat) (v : Rat) (hi : i < L.vols.length)
    (h : L.removeStep i v = .ok L') :
    L'.vol i = L.vol i - v ∧ L.minV ≤ L'.vol i ∧ (∀ j, j ≠ i → L'.vol j = L.vol j)
    ∧ L'.minV = L.minV ∧ L'.maxV = L.maxV ∧ L'.vols.length = L.vols.length := by
  obtain ⟨hle, hvols, hmin, hmax, -⟩ := Labware.removeStep_fields h
  have hi' : L'.vol i = L.vol i - v := by
    simp only [Labware.vol, hvols]
    exact getD_set_self _ _ _ _ hi
  refine ⟨hi', ?_, ?_, hmin, hmax, ?_⟩
  · rw [hi']; exact Rat.not_lt.mp hle
  · intro j hj
    simp only [Labware.vol, hvols]
    exact getD_set_ne _ _ _ _ _ hj
  · rw [hvols, List.length_set]

theorem removeStep_err (L : Labware) (i : Nat) (v : Rat) (e : Err)
    (h : L.removeStep i v = .error e) : e = .underflow ∧ L.vol i - v < L.minV :=
  Labware.removeStep_error h

/-- Steps preserve the limits invariant (for non-negative volumes). -/
theorem addStep_valid (L L' : Labware) (i : Nat) (v : Rat) (c : Option Comp) (hv : 0 ≤ v)
    (hL : LabValid L) (h : L.addStep i v c = .ok L') : LabValid L' := by
  obtain ⟨hle, hvols, hmin, hmax, -⟩ := Labware.addStep_fields h
  refine ⟨hmin ▸ hL.min_nonneg, by rw [hmin, hmax]; exact hL.min_lt_max, ?_⟩
  rw [hvols, hmax]
  refine forall_mem_set _ _ _ hL.range ?_
  intro hi
  have h0 := (hL.range _ (getD_mem_of_lt L.vols i 0 hi)).1
  have hle' := Rat.not_lt.mp hle
  simp only [Labware.vol] at hle' ⊢
  constructor <;> grind

theorem removeStep_valid (L L' : Labware) (i : Nat) (v : Rat) (hv : 0 ≤ v)
    (hL : LabValid L) (h : L.removeStep i v = .ok L') : LabValid L' := by
  obtain ⟨hle, hvols, hmin, hmax, -⟩ := Labware.removeStep_fields h
  refine ⟨hmin ▸ hL.min_nonneg, by rw [hmin, hmax]; exact hL.min_lt_max, ?_⟩
  rw [hvols, hmax]
  refine forall_mem_set _ _ _ hL.range ?_
  intro hi
  have h0 := (hL.range _ (getD_mem_of_lt L.vols i 0 hi)).2
  have hle' := Rat.not_lt.mp hle
  have hmn := hL.min_nonneg
  simp only [Labware.vol] at hle' ⊢
  constructor <;> grind

/-! ### Micro-operations and their execution -/

theorem micro_valid (w w' : World) (m : Micro) (hm : Micro.NonNeg m) (hw : WorldValid w)
    (h : w.micro m = .ok w') : WorldValid w' := by
  rcases World.micro_labs h with hl | ⟨l, L, L', hL, hl, hcase⟩
  · intro L hL; exact hw L (hl ▸ hL)
  · have hLv : LabValid L := hw L (List.mem_of_getElem? hL)
    have hL'v : LabValid L' := by
      rcases hcase with ⟨i, v, rfl, hs⟩ | ⟨i, v, c, co, rfl, hs⟩ | ⟨label, rfl⟩ | ⟨n, label, hs⟩
      · exact removeStep_valid L L' i v hm hLv hs
      · exact addStep_valid L L' i v co hm hLv hs
      · exact ⟨hLv.min_nonneg, hLv.min_lt_max, hLv.range⟩
      · obtain ⟨h1, h2, h3, -⟩ := Labware.condenseLog_fields hs
        exact ⟨h2 ▸ hLv.min_nonneg, by rw [h2, h3]; exact hLv.min_lt_max, by rw [h1, h3]; exact hLv.range⟩
    intro M hM
    rw [hl] at hM
    rcases List.mem_or_eq_of_mem_set hM with hM | rfl
    · exact hw M hM
    · exact hL'v

/-- Execution with early exit: the returned state is the one reached by the executed prefix;
    on an error it is the state in which the failing micro-operation was refused. -/
theorem exec_decompose (w : World) (ms : List Micro) :
    (∃ w', w.exec ms = (w', none) )
    ∨ (∃ pre m post w' e, ms = pre ++ m :: post ∧ w.exec pre = (w', none) ∧ w'.micro m = .error e
        ∧ w.exec ms = (w', some e)) :=
  World.exec_decompose w ms

theorem exec_append (w : World) (a b : List Micro) :
    w.exec (a ++ b) = match w.exec a with
      | (w', none) => w'.exec b
      | (w', some e) => (w', some e) :=
  World.exec_append w a b

theorem exec_valid (w : World) (ms : List Micro) (hms : ∀ m ∈ ms, Micro.NonNeg m) (hw : WorldValid w) :
    WorldValid (w.exec ms).1 :=
  World.exec_invariant (P := WorldValid) (Q := Micro.NonNeg)
    (fun w w' m hm hw h => micro_valid w w' m hm hw h) w ms hms hw

/-! ### Compiled operations only use non-negative step volumes -/

/-- All micro-operations of a list have non-negative volume arguments. -/
private abbrev AllNN (ms : List Micro) : Prop := ∀ m ∈ ms, Micro.NonNeg m

private theorem AllNN.nil : AllNN [] := by
  intro m h; cases h

private theorem AllNN.cons {m : Micro} {ms : List Micro} (h : Micro.NonNeg m) (hs : AllNN ms) :
    AllNN (m :: ms) := by
  intro m' h'
  rcases List.mem_cons.mp h' with rfl | h'
  · exact h
  · exact hs m' h'

private theorem AllNN.append {a b : List Micro} (ha : AllNN a) (hb : AllNN b) : AllNN (a ++ b) := by
  intro m h
  rcases List.mem_append.mp h with h | h
  · exact ha m h
  · exact hb m h

private theorem AllNN.flatMap {α} {l : List α} {f : α → List Micro} (h : ∀ a ∈ l, AllNN (f a)) :
    AllNN (l.flatMap f) := by
  intro m hm
  obtain ⟨a, ha, hm⟩ := List.mem_flatMap.mp hm
  exact h a ha m hm

private theorem AllNN.fail (e : Err) : AllNN [.fail e] := AllNN.cons trivial AllNN.nil

private theorem AllNN.emit (r : Rec) : AllNN [.emit r] := AllNN.cons trivial AllNN.nil

private theorem AllNN.mapEmit (rs : List Rec) : AllNN (rs.map .emit) := by
  intro m hm
  obtain ⟨r, -, rfl⟩ := List.mem_map.mp hm
  trivial

private theorem AllNN.exceptMicros {α} {x : Except Err α} {f : α → List Micro}
    (h : ∀ a, AllNN (f a)) : AllNN (exceptMicros x f) := by
  unfold Robotools.exceptMicros
  split
  · exact h _
  · exact AllNN.fail _

/-- Structural decomposition of a compiled list into pieces known to be non-negative. -/
local macro "nn_auto" : tactic => `(tactic|
  repeat (first
    | assumption
    | exact AllNN.nil
    | exact AllNN.fail _
    | exact AllNN.emit _
    | exact AllNN.mapEmit _
    | apply AllNN.append
    | (apply AllNN.exceptMicros; intro _)
    | (apply AllNN.flatMap; intro _ _)
    | apply AllNN.cons (by trivial)
    | split))

private theorem nonneg_of_not_any {vs : List Rat} (h : ¬ vs.any (· < 0) = true) {v : Rat}
    (hv : v ∈ vs) : 0 ≤ v := by
  apply Rat.not_lt.mp
  intro hlt
  exact h (List.any_eq_true.mpr ⟨v, hv, by simpa using hlt⟩)

private theorem compileRemove_nn (L : Labware) (l : Nat) (wells : Arr String) (vols : Arr Rat)
    (label : Option String) : AllNN (compileRemove L l wells vols label) := by
  unfold compileRemove
  simp only
  split
  · exact AllNN.fail _
  · split
    · exact AllNN.fail _
    · rename_i hany
      apply AllNN.append
      · intro m hm
        obtain ⟨⟨w, v⟩, hmem, rfl⟩ := List.mem_map.mp hm
        have hv : 0 ≤ v := nonneg_of_not_any hany (List.of_mem_zip hmem).2
        dsimp only
        split
        · exact hv
        · trivial
      · exact AllNN.cons trivial AllNN.nil

private theorem compileAdd_nn (L : Labware) (l : Nat) (wells : Arr String) (vols : Arr Rat)
    (label : Option String) (comps : Option (List (Option Comp))) (carryAll : Bool) :
    AllNN (compileAdd L l wells vols label comps carryAll) := by
  unfold compileAdd
  simp only
  split
  · exact AllNN.fail _
  · split
    · exact AllNN.fail _
    · rename_i hany
      split
      · exact AllNN.fail _
      · apply AllNN.append
        · intro m hm
          obtain ⟨⟨⟨w, v⟩, c⟩, hmem, rfl⟩ := List.mem_map.mp hm
          have hv : 0 ≤ v := nonneg_of_not_any hany (List.of_mem_zip (List.of_mem_zip hmem).1).2
          dsimp only
          split
          · exact hv
          · trivial
        · exact AllNN.cons trivial AllNN.nil

private theorem commentMicros_nn (c : Option String) : AllNN (commentMicros c) := by
  unfold commentMicros
  nn_auto

private theorem emitAD_nn (cfg : Cfg) (L : Labware) (isAsp : Bool) (ws : List String)
    (vs : List Rat) (kw : KW) : AllNN (emitAD cfg L isAsp ws vs kw) := by
  unfold emitAD
  nn_auto

private theorem compileAspirate_nn (cfg : Cfg) (L : Labware) (l : Nat) (wells : Arr String)
    (vols : Arr Rat) (label : Option String) (kw : KW) :
    AllNN (compileAspirate cfg L l wells vols label kw) := by
  unfold compileAspirate
  exact AllNN.append (AllNN.append (compileRemove_nn _ _ _ _ _) (commentMicros_nn _)) (emitAD_nn _ _ _ _ _ _)

private theorem compileDispense_nn (cfg : Cfg) (L : Labware) (l : Nat) (wells : Arr String)
    (vols : Arr Rat) (label : Option String) (comps : Option (List (Option Comp))) (kw : KW)
    (carryAll : Bool) : AllNN (compileDispense cfg L l wells vols label comps kw carryAll) := by
  unfold compileDispense
  exact AllNN.append (AllNN.append (compileAdd_nn _ _ _ _ _ _ _) (commentMicros_nn _)) (emitAD_nn _ _ _ _ _ _)

private theorem washMicros_nn (cfg : Cfg) (scheme : Int) : AllNN (washMicros cfg scheme) := by
  unfold washMicros
  nn_auto

private theorem actionMicros_nn (cfg : Cfg) (wash : WashArg) : AllNN (actionMicros cfg wash) := by
  unfold actionMicros
  have := washMicros_nn cfg
  nn_auto
  exact this _

private theorem compileRD_nn (cfg : Cfg) (a : RDArgs) : AllNN (compileRD cfg a) := by
  unfold compileRD
  nn_auto

private theorem compileTransfer_nn (cfg : Cfg) (S : Labware) (src : Nat) (srcWells : Arr String)
    (D : Labware) (dst : Nat) (dstWells : Arr String) (vols : Arr Rat) (label : Option String)
    (wash : WashArg) (partitionBy : String) (kw : KW) :
    AllNN (compileTransfer cfg S src srcWells D dst dstWells vols label wash partitionBy kw) := by
  unfold compileTransfer
  simp only
  split
  · exact AllNN.fail _
  split
  · exact AllNN.fail _
  split
  · exact AllNN.fail _
  split
  · exact AllNN.fail _
  refine AllNN.append (AllNN.append (commentMicros_nn _) ?_) ?_
  · apply AllNN.flatMap
    intro st _
    split
    · refine AllNN.append (AllNN.append (compileAspirate_nn _ _ _ _ _ _ _) ?_) (compileDispense_nn _ _ _ _ _ _ _ _ _)
      nn_auto
    · exact actionMicros_nn _ _
    · exact AllNN.emit _
  · nn_auto

private theorem compileDistribute_nn (cfg : Cfg) (S D : Labware) (a : DistArgs) :
    AllNN (compileDistribute cfg S D a) := by
  unfold compileDistribute
  simp only
  split
  · exact AllNN.fail _
  split
  · exact AllNN.fail _
  apply AllNN.exceptMicros
  intro ps
  split
  · exact AllNN.fail _
  split
  · split
    · exact AllNN.fail _
    · refine AllNN.append (AllNN.append (AllNN.append (AllNN.append (compileRemove_nn _ _ _ _ _) ?_)
        (compileAdd_nn _ _ _ _ _ _ _)) (commentMicros_nn _)) (compileRD_nn _ _)
      nn_auto
  · exact AllNN.fail _

private theorem compileEvoAD_nn (cfg : Cfg) (L : Labware) (l : Nat) (isAsp : Bool) (a : EvoADArgs)
    (label : Option String) (comps : Option (List (Option Comp))) :
    AllNN (compileEvoAD cfg L l isAsp a label comps) := by
  unfold compileEvoAD
  simp only
  split
  · exact AllNN.fail _
  refine AllNN.append (AllNN.append ?_ (commentMicros_nn _)) ?_
  · split
    · exact compileRemove_nn _ _ _ _ _
    · exact compileAdd_nn _ _ _ _ _ _ _
  · nn_auto

/-- Every compiled operation only uses non-negative step volumes. -/
theorem compile_nonneg (w : World) (op : Op) : ∀ m ∈ compile w op, Micro.NonNeg m := by
  show AllNN (compile w op)
  unfold compile
  cases op <;> simp only
  all_goals
    repeat (first
      | exact compileAdd_nn _ _ _ _ _ _ _
      | exact compileRemove_nn _ _ _ _ _
      | exact compileAspirate_nn _ _ _ _ _ _ _
      | exact compileDispense_nn _ _ _ _ _ _ _ _ _
      | exact compileTransfer_nn _ _ _ _ _ _ _ _ _ _ _ _
      | exact compileDistribute_nn _ _ _ _
      | exact commentMicros_nn _
      | exact washMicros_nn _ _
      | exact compileRD_nn _ _
      | exact compileEvoAD_nn _ _ _ _ _ _ _
      | exact AllNN.fail _
      | exact AllNN.emit _
      | exact AllNN.cons (by trivial) AllNN.nil
      | (apply AllNN.exceptMicros; intro _)
      | split)

/-! ### The property -/

/-- After every operation — accepted or rejected, whatever it is — all wells of all labware are
    within `[0, max_volume]`. -/
theorem step_limits (w : World) (op : Op) (hw : WorldValid w) : WorldValid (w.step op).1 :=
  exec_valid w (compile w op) (compile_nonneg w op) hw

/-- Running any sequence of operations, continuing after rejected ones. -/
def runAll (w : World) : List Op → World
  | [] => w
  | op :: ops => runAll (w.step op).1 ops

/-- The invariant holds in every reachable state of every history (including rejected operations). -/
theorem world_limits (w : World) (ops : List Op) (hw : WorldValid w) : WorldValid (runAll w ops) := by
  induction ops generalizing w with
  | nil => exact hw
  | cons op ops ih => exact ih _ (step_limits w op hw)

/-- Constructed labware satisfies the invariant, so every reachable state of a program does. -/
theorem mk_valid (s : PlateSpec) (L : Labware) (h : Labware.mk? s = .ok L) : LabValid L := by
  obtain ⟨h1, h2, hmin, hmax, flat, hneg, hle, hvols⟩ := Labware.mk?_spec h
  refine ⟨hmin ▸ Rat.not_lt.mp h1, by rw [hmin, hmax]; exact Rat.not_le.mp h2, ?_⟩
  intro v hv
  rw [hmax]
  constructor
  · rw [hvols] at hv
    obtain ⟨x, hx, rfl⟩ := List.mem_map.mp hv
    apply Rat.not_lt.mp
    intro hlt
    apply hneg
    refine List.any_eq_true.mpr ⟨x, hx, ?_⟩
    cases x with
    | none => rfl
    | some q => simpa using hlt
  · apply Rat.not_lt.mp
    intro hlt
    apply hle
    rw [← hvols]
    exact List.any_eq_true.mpr ⟨v, hv, by simpa using hlt⟩

theorem trough_mk_valid (s : TroughSpec) (L : Labware) (h : Trough.mk? s = .ok L) : LabValid L := by
  obtain ⟨p, -, -, hp⟩ := Trough.mk?_spec h
  exact mk_valid p L hp

/-- Non-vacuity: a concrete valid world and an operation that is rejected at the limit. -/
example : (Labware.addStep { name := "P", geom := ⟨1, 1, none⟩, minV := 0, maxV := 10, vols := [4], comp := [], hist := [] }
    0 (13/2) none).toOption.isNone = true := by decide +kernel

end Robotools.C02
