/-
  Robotools.Spec.Consts — the constants and tables the theorems are about.
  `Robotools/Generated/Consts.lean` is re-extracted from /repo's sources on every run and
  `Robotools/Proofs/GenOK.lean` proves `Generated.X = Spec.X` for each of them.
-/
namespace Robotools.Spec

/-- `int_to_tip`: tip number ↦ `Tip` member value. -/
def tipTable : List (Int × Nat) :=
  [(1, 1), (2, 2), (3, 4), (4, 8), (5, 16), (6, 32), (7, 64), (8, 128)]

/-- `Tip` enum members (name, value). -/
def tipEnum : List (String × Int) :=
  [("Any", -1), ("T1", 1), ("T2", 2), ("T3", 4), ("T4", 8), ("T5", 16), ("T6", 32), ("T7", 64),
   ("T8", 128)]

/-- Upper bound on a record volume in `prepare_aspirate_dispense_parameters`. -/
def maxRecordVolume : Nat := 7158278

/-- Maximum length of rack label / id / type fields. -/
def maxTextLen : Nat := 32

/-- Valid fixed-tip wash schemes. -/
def washSchemes : List Nat := [1, 2, 3, 4]

/-- Row letters of well IDs. -/
def rowLetters : String := "ABCDEFGHIJKLMNOPQRSTUVWXYZ"

/-- Digits used by `to_hex`. -/
def hexDigits : String := "0123456789ABCDEF"

/-- EVO grid / site bounds, default dilutor volume. -/
def maxGrid : Nat := 67
def maxSite : Nat := 128
def maxDilutorVolume : Nat := 950

/-- Well-selection bitmap: bits per character and character offset. -/
def selBits : Nat := 7
def selOffset : Nat := 48

/-- The slot order of tip volumes in EVO commands. -/
def tipSlots : List Nat := [1, 2, 4, 8, 16, 32, 64, 128]

/-- Field order of the record templates (names of the interpolated expressions, in order). -/
def templateA : List String :=
  ["A", "rack_label", "rack_id", "rack_type", "position", "tube_id", "volume_s", "liquid_class",
   "tip_type", "tip", "forced_rack_type"]
def templateD : List String :=
  ["D", "rack_label", "rack_id", "rack_type", "position", "tube_id", "volume_s", "liquid_class",
   "tip_type", "tipv", "forced_rack_type"]
def templateRsrc : List String := ["src_rack_label", "src_rack_id", "src_rack_type", "src_start", "src_end"]
def templateRdst : List String := ["dst_rack_label", "dst_rack_id", "dst_rack_type", "dst_start", "dst_end"]
def templateR : List String :=
  ["R", "src_parameters", "dst_parameters", "volume", "liquid_class", "diti_reuse", "multi_disp",
   "direction_i+exclude_str"]
def templateEvoAspirate : List String :=
  ["B;Aspirate(", "tip_selection", ",\"", "liquid_class", "\",", "tip_volumes", "0,0,0,0,",
   "labware_position[0]", ",", "labware_position[1]", ",1,\"", "code_string", "\",0,", "arm", ");"]
def templateEvoDispense : List String :=
  ["B;Dispense(", "tip_selection", ",\"", "liquid_class", "\",", "tip_volumes", "0,0,0,0,",
   "labware_position[0]", ",", "labware_position[1]", ",1,\"", "code_string", "\",0,", "arm", ");"]
def templateEvoWash : List String :=
  ["B;Wash(", "tip_selection", ",", "waste_location[0]", ",", "waste_location[1]", ",",
   "cleaner_location[0]", ",", "cleaner_location[1]", ",\"", "waste_vol", "\",", "waste_delay",
   ",\"", "cleaner_vol", "\",", "cleaner_delay", ",", "airgap", ",", "airgap_speed", ",",
   "retract_speed", ",", "fastwash", ",", "low_volume", ",1000,", "arm", ");"]
def templateSimple : List (String × String) :=
  [("comment", "C;{cline}"), ("wash", "W{scheme};"), ("wash_diti", "W;"), ("decontaminate", "WD;"),
   ("flush", "F;"), ("commit", "B;"), ("set_diti", "S;{diti_index}")]

end Robotools.Spec
