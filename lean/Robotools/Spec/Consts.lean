/-
  Robotools.Spec.Consts — the constants, tables and record templates the theorems are about.
  `Robotools/Generated/Consts.lean` is re-extracted from /repo's sources on every run and
  `Robotools/Proofs/GenOK.lean` proves `Generated.X = Spec.X` for each of them; the model's
  renderers are proved to instantiate these templates (`Robotools/Proofs/Templates.lean`).
-/
namespace Robotools.Spec

def tipTable : List (Int × Nat) := [(1, 1), (2, 2), (3, 4), (4, 8), (5, 16), (6, 32), (7, 64), (8, 128)]
def tipEnum : List (String × Int) := [("Any", -1), ("T1", 1), ("T2", 2), ("T3", 4), ("T4", 8), ("T5", 16), ("T6", 32), ("T7", 64), ("T8", 128)]
def maxRecordVolume : Nat := 7158278
def maxTextLen : Nat := 32
def volumeFormat : String := "{numpy.round(volume, decimals=2):.2f}"
def tipAggregation : String := "sum(set(tips))"
def washSchemes : List Nat := [1, 2, 3, 4]
def rowLettersLabware : String := "ABCDEFGHIJKLMNOPQRSTUVWXYZ"
def rowLettersTransform : String := "ABCDEFGHIJKLMNOPQRSTUVWXYZ"
def wellIdFormats : List String := ["{row}{column:02d}", "{vrow}{column:02d}"]
def hexDigits : String := "0123456789ABCDEF"
def maxGrid : Nat := 67
def maxSite : Nat := 128
def maxDilutorVolume : Nat := 950
def selBits : Nat := 7
def selOffset : Nat := 48
def selectionHeader : List String := ["{to_hex(cols):0>2}", "{to_hex(rows):0>2}"]
def tipSlots : List Nat := [1, 2, 4, 8, 16, 32, 64, 128]
def saveJoiner : String := "\n"
def saveOpen : List (String × String) := [("encoding", "latin_1"), ("newline", "\r\n"), ("mode", "w")]
def templateA : List String := ["A;", "{rack_label}", ";", "{rack_id}", ";", "{rack_type}", ";", "{position}", ";", "{tube_id}", ";", "{volume_s}", ";", "{liquid_class}", ";", "{tip_type}", ";", "{tip}", ";", "{forced_rack_type}"]
def templateD : List String := ["D;", "{rack_label}", ";", "{rack_id}", ";", "{rack_type}", ";", "{position}", ";", "{tube_id}", ";", "{volume_s}", ";", "{liquid_class}", ";", "{tip_type}", ";", "{tipv}", ";", "{forced_rack_type}"]
def templateR : List String := ["R;", "{src_parameters}", ";", "{dst_parameters}", ";", "{volume}", ";", "{liquid_class}", ";", "{diti_reuse}", ";", "{multi_disp}", ";", "{direction_i}", "{exclude_str}"]
def templateRsrc : List String := ["{src_rack_label}", ";", "{src_rack_id}", ";", "{src_rack_type}", ";", "{src_start}", ";", "{src_end}"]
def templateRdst : List String := ["{dst_rack_label}", ";", "{dst_rack_id}", ";", "{dst_rack_type}", ";", "{dst_start}", ";", "{dst_end}"]
def templateComment : List String := ["C;", "{cline}"]
def templateWashDiti : List String := ["W;"]
def templateWash : List String := ["W", "{scheme}", ";"]
def templateDecon : List String := ["WD;"]
def templateFlush : List String := ["F;"]
def templateCommit : List String := ["B;"]
def templateSetDiti : List String := ["S;", "{diti_index}"]
def templateEvoAspirate : List String := ["B;Aspirate(", "{tip_selection}", ",\"", "{liquid_class}", "\",", "{tip_volumes}", "0,0,0,0,", "{labware_position[0]}", ",", "{labware_position[1]}", ",1,\"", "{code_string}", "\",0,", "{arm}", ");"]
def templateEvoDispense : List String := ["B;Dispense(", "{tip_selection}", ",\"", "{liquid_class}", "\",", "{tip_volumes}", "0,0,0,0,", "{labware_position[0]}", ",", "{labware_position[1]}", ",1,\"", "{code_string}", "\",0,", "{arm}", ");"]
def templateEvoWash : List String := ["B;Wash(", "{tip_selection}", ",", "{waste_location[0]}", ",", "{waste_location[1]}", ",", "{cleaner_location[0]}", ",", "{cleaner_location[1]}", ",\"", "{waste_vol}", "\",", "{waste_delay}", ",\"", "{cleaner_vol}", "\",", "{cleaner_delay}", ",", "{airgap}", ",", "{airgap_speed}", ",", "{retract_speed}", ",", "{fastwash}", ",", "{low_volume}", ",1000,", "{arm}", ");"]

/-- The order in which an operation touches the tracking, the comment and the emission (C03: the tracking is updated —
    and may refuse — before anything is appended).  `Proofs/OrderOK.lean` shows that the model's compile functions
    concatenate their blocks in exactly this order. -/
def orderAspirate : List String := ["labware.remove", "self.comment", "self._get_well_position", "self.aspirate_well"]
def orderDispense : List String := ["labware.add", "self.comment", "self._get_well_position", "self.dispense_well"]
def orderDistribute : List String :=
  ["raise ValueError", "raise InvalidOperationError", "self._get_well_position", "raise ValueError", "source.remove",
   "source.get_well_composition", "destination.add", "self.comment", "self.reagent_distribution"]
def orderEvoAspirate : List String := ["labware.remove", "self.comment", "commands.evo_aspirate", "self.append"]
def orderEvoDispense : List String := ["labware.add", "self.comment", "commands.evo_dispense", "self.append"]

end Robotools.Spec
